package main

// Document-level cases: real MerklizeJSONLD + EntriesFromRDFWithHasher vs the model, plus direct predicates.

import (
	"bytes"
	"context"
	"fmt"
	"hash/fnv"
	"math/big"
	"sort"
	"strings"
	"time"

	"github.com/iden3/go-merkletree-sql/v2"
	"github.com/iden3/go-merkletree-sql/v2/db/memory"
	"github.com/iden3/go-schema-processor/v2/merklize"
	"github.com/piprate/json-gold/ld"
)

func partsJ(parts []interface{}) []any {
	out := make([]any, len(parts))
	for i, p := range parts {
		out[i] = p
	}
	return out
}

func valueJ(v any) (kind, canon string) {
	switch x := v.(type) {
	case *big.Int:
		return "int", x.String()
	case int64:
		return "int", fmt.Sprint(x)
	case int:
		return "int", fmt.Sprint(x)
	case bool:
		if x {
			return "bool", "true"
		}
		return "bool", "false"
	case time.Time:
		ns := new(big.Int).Mul(big.NewInt(x.Unix()), big.NewInt(1_000_000_000))
		ns.Add(ns, big.NewInt(int64(x.Nanosecond())))
		return "time", ns.String()
	case string:
		return "str", x
	}
	return "?", fmt.Sprint(v)
}

func entryJ(e merklize.RDFEntry) J {
	k, c := valueJ(e.VerifValue())
	return J{"k": partsJ(e.VerifKeyParts()), "kind": k, "v": c, "dt": e.VerifDatatype()}
}

func erase(parts []interface{}) []string {
	var out []string
	for _, p := range parts {
		if s, ok := p.(string); ok {
			out = append(out, s)
		}
	}
	return out
}

func normalize(doc []byte, loader ld.DocumentLoader, safe bool) (*ld.RDFDataset, error) {
	var obj map[string]interface{}
	if err := jsonUnmarshal(doc, &obj); err != nil {
		return nil, err
	}
	opts := ld.NewJsonLdOptions("")
	opts.Algorithm = ld.AlgorithmURDNA2015
	opts.SafeMode = safe
	opts.DocumentLoader = loader
	n, err := ld.NewJsonLdProcessor().Normalize(obj, opts)
	if err != nil {
		return nil, err
	}
	ds, ok := n.(*ld.RDFDataset)
	if !ok {
		return nil, fmt.Errorf("not a dataset")
	}
	return ds, nil
}

type MzRun struct {
	Mz      *merklize.Merklizer
	MT      *merkletree.MerkleTree
	Entries []merklize.RDFEntry // ordered, from EntriesFromRDFWithHasher on the harness's own normalisation
	DS      *ld.RDFDataset
	Err     error
}

func countLeaves(mt *merkletree.MerkleTree) int {
	n := 0
	_ = mt.Walk(context.Background(), nil, func(nd *merkletree.Node) {
		if nd.Type == merkletree.NodeTypeLeaf {
			n++
		}
	})
	return n
}

func runMerklize(doc []byte, hs HSpec, loader ld.DocumentLoader, safe bool, extra ...merklize.MerklizeOption) MzRun {
	ctx := context.Background()
	var res MzRun
	_, err := guard(4*time.Second, func() (int, error) {
		mt, err := merkletree.NewMerkleTree(ctx, memory.NewMemoryStorage(), 40)
		if err != nil {
			return 0, err
		}
		res.MT = mt
		opts := []merklize.MerklizeOption{merklize.WithDocumentLoader(loader), merklize.WithMerkleTree(merklize.MerkleTreeSQLAdapter(mt))}
		if hs.Name != "default" {
			opts = append(opts, merklize.WithHasher(hs.H))
		}
		if !safe {
			opts = append(opts, merklize.WithSafeMode(false))
		}
		opts = append(opts, extra...)
		// options are independent settings: the order they are listed in is no input. It is varied with the document
		// (rotation and reversal chosen by a hash of the bytes), so every order of every pair occurs across a run.
		if len(opts) > 1 {
			h := fnv.New32a()
			_, _ = h.Write(doc)
			k := int(h.Sum32())
			if k < 0 {
				k = -k
			}
			rot := k % len(opts)
			opts = append(append([]merklize.MerklizeOption{}, opts[rot:]...), opts[:rot]...)
			if (k/len(opts))%2 == 1 {
				for i, j := 0, len(opts)-1; i < j; i, j = i+1, j-1 {
					opts[i], opts[j] = opts[j], opts[i]
				}
			}
		}
		mz, err := merklize.MerklizeJSONLD(ctx, bytes.NewReader(doc), opts...)
		if err != nil {
			return 0, err
		}
		if mz == nil {
			return 0, errNilNil
		}
		res.Mz = mz
		return 0, nil
	})
	res.Err = err
	return res
}

// docImpl: the canonical implementation-side observation of one document under one hasher
func docImpl(doc []byte, hs HSpec, loader ld.DocumentLoader, safe bool, queries [][]interface{}) (impl J, run MzRun, dsJ []any, canon J, why []string) {
	run = runMerklize(doc, hs, loader, safe)
	ds, nerr := normalize(doc, loader, safe)
	canon = J{}
	if nerr == nil {
		run.DS = ds
		dsJ, canon = datasetJ(ds)
	}
	if run.Err != nil {
		return errJ(run.Err), run, dsJ, canon, nil
	}
	if nerr != nil {
		why = append(why, "merklized although the harness's own normalisation failed: "+nerr.Error())
		return J{"ok": "?"}, run, dsJ, canon, why
	}
	ents, eerr := merklize.EntriesFromRDFWithHasher(ds, hs.H)
	if eerr != nil {
		why = append(why, "MerklizeJSONLD succeeded but EntriesFromRDFWithHasher on the same dataset failed: "+eerr.Error())
		return J{"ok": "?"}, run, dsJ, canon, why
	}
	run.Entries = ents
	ej := make([]any, len(ents))
	for i, e := range ents {
		ej[i] = entryJ(e)
	}
	root := run.Mz.Root().BigInt()
	leaves := countLeaves(run.MT)
	// the merklizer's entry map must be exactly these entries
	mzEnts := run.Mz.VerifEntries()
	if len(mzEnts) != len(ents) {
		why = append(why, fmt.Sprintf("merklizer holds %d entries, dataset has %d", len(mzEnts), len(ents)))
	}
	for _, e := range ents {
		k, err := e.KeyMtEntry()
		if err != nil {
			why = append(why, "key hash error: "+err.Error())
			continue
		}
		me, ok := mzEnts[k.String()]
		if !ok {
			why = append(why, "entry missing from merklizer map: "+fmt.Sprint(e.VerifKeyParts()))
			continue
		}
		a, b := entryJ(me), entryJ(e)
		if fmt.Sprint(a) != fmt.Sprint(b) {
			why = append(why, fmt.Sprintf("merklizer entry differs: %v vs %v", a, b))
		}
	}
	if leaves != len(ents) {
		why = append(why, fmt.Sprintf("tree has %d leaves for %d entries", leaves, len(ents)))
	}
	var qj []any
	for _, q := range queries {
		qj = append(qj, queryImpl(run.Mz, hs, q, &why))
	}
	if qj == nil {
		qj = []any{}
	}
	impl = okJ(J{"entries": ej, "root": root.String(), "leaves": leaves, "q": qj})
	return impl, run, dsJ, canon, why
}

func queryImpl(mz *merklize.Merklizer, hs HSpec, parts []interface{}, why *[]string) any {
	ctx := context.Background()
	type qr struct {
		j J
	}
	r, err := guard(4*time.Second, func() (J, error) {
		p, err := mz.Options().NewPath(parts...)
		if err != nil {
			return nil, err
		}
		proof, val, err := mz.Proof(ctx, p)
		if err != nil {
			return nil, err
		}
		if proof == nil {
			return nil, errNilNil
		}
		sibs := []any{}
		for _, s := range proof.AllSiblings() {
			sibs = append(sibs, s.BigInt().String())
		}
		var aux any
		if proof.NodeAux != nil {
			aux = []any{proof.NodeAux.Key.BigInt().String(), proof.NodeAux.Value.BigInt().String()}
		}
		out := J{"ex": proof.Existence, "sib": sibs, "aux": aux, "kind": nil, "vh": nil, "dt": nil}
		kh, err := p.MtEntry()
		if err != nil {
			return nil, err
		}
		root := mz.Root()
		if proof.Existence {
			if val == nil {
				*why = append(*why, fmt.Sprintf("existence proof without a Value for %v", parts))
			} else {
				vh, err := val.MtEntry()
				if err != nil {
					*why = append(*why, fmt.Sprintf("Value.MtEntry failed for %v: %v", parts, err))
				} else {
					out["vh"] = vh.String()
					if !merkletree.VerifyProof(root, proof, kh, vh) {
						*why = append(*why, fmt.Sprintf("existence proof does not verify against Root() for %v", parts))
					}
				}
				switch {
				case val.IsBigInt(), val.IsInt64():
					out["kind"] = "int"
				case val.IsBool():
					out["kind"] = "bool"
				case val.IsTime():
					out["kind"] = "time"
				case val.IsString():
					out["kind"] = "str"
				}
			}
		} else {
			if val != nil {
				*why = append(*why, fmt.Sprintf("non-existence proof with a non-nil Value for %v", parts))
			}
			if !merkletree.VerifyProof(root, proof, kh, big.NewInt(0)) {
				*why = append(*why, fmt.Sprintf("non-existence proof does not verify against Root() for %v", parts))
			}
		}
		e, eerr := mz.Entry(p)
		dt, terr := mz.JSONLDType(p)
		if (eerr == nil) != proof.Existence || (terr == nil) != proof.Existence {
			*why = append(*why, fmt.Sprintf("Entry/JSONLDType success (%v/%v) differs from proof existence %v for %v", eerr == nil, terr == nil, proof.Existence, parts))
		}
		if eerr == nil {
			out["dt"] = dt
			_ = e
		}
		// the same parts as a path made with another hasher: it is what its own hash says it is - (almost surely) not a key
		// of this tree - and Proof, Entry and JSONLDType must agree on that
		other := hSalted()
		if hs.Name == other.Name {
			other = hPoseidon()
		}
		if fp, err := (merklize.Options{Hasher: other.H}).NewPath(parts...); err == nil {
			if fkh, err := fp.MtEntry(); err == nil {
				fproof, fval, ferr := mz.Proof(ctx, fp)
				if ferr != nil || fproof == nil {
					*why = append(*why, fmt.Sprintf("Proof fails for a path made with another hasher: %v", ferr))
				} else {
					fvh := big.NewInt(0)
					if fproof.Existence && fval != nil {
						if x, err := fval.MtEntry(); err == nil {
							fvh = x
						}
					}
					if !merkletree.VerifyProof(root, fproof, fkh, fvh) {
						*why = append(*why, fmt.Sprintf("proof for %v as a path made with another hasher does not verify for that path's own hash", parts))
					}
					_, e2 := mz.Entry(fp)
					_, t2 := mz.JSONLDType(fp)
					if (e2 == nil) != fproof.Existence || (t2 == nil) != fproof.Existence {
						*why = append(*why, fmt.Sprintf("path made with another hasher: Entry/JSONLDType success (%v/%v) differs from proof existence %v for %v", e2 == nil, t2 == nil, fproof.Existence, parts))
					}
				}
			}
		}
		return out, nil
	})
	_ = qr{}
	if err != nil {
		return errJ(err)
	}
	return r
}

// factsPredicate: entries (indices erased) == facts of the abstract document; index discipline
func factsPredicate(ents []merklize.RDFEntry, facts []Fact, why *[]string) {
	want := map[string]int{}
	for _, f := range facts {
		want[f.key()]++
	}
	multiAt := map[string][]bool{}
	for _, f := range facts {
		pk := strings.Join(f.Path, " ")
		if old, ok := multiAt[pk]; ok {
			for i := range old {
				old[i] = old[i] || f.Multi[i]
			}
		} else {
			multiAt[pk] = append([]bool{}, f.Multi...)
		}
	}
	got := map[string]int{}
	groups := map[string]map[int]bool{}
	for _, e := range ents {
		k, c := valueJ(e.VerifValue())
		parts := e.VerifKeyParts()
		f := Fact{Path: erase(parts), DT: e.VerifDatatype(), Kind: k, Canon: c}
		got[f.key()]++
		// index discipline
		si := -1 // number of string parts seen so far - 1
		for i, p := range parts {
			switch x := p.(type) {
			case string:
				si++
			case int:
				// an index follows the property at string position si; it must be multi-valued there
				m := multiAt[strings.Join(f.Path, " ")]
				if si >= 0 && si < len(m) && !m[si] {
					*why = append(*why, fmt.Sprintf("index %d on single-valued property in %v", x, parts))
				}
				next := "<leaf>"
				if i+1 < len(parts) {
					next = "<child>"
				}
				gk := fmt.Sprint(parts[:i]) + "→" + next
				if groups[gk] == nil {
					groups[gk] = map[int]bool{}
				}
				groups[gk][x] = true
			}
		}
	}
	for k, n := range want {
		if got[k] != n {
			*why = append(*why, fmt.Sprintf("fact %q expected %d time(s), found %d", k, n, got[k]))
		}
	}
	for k, n := range got {
		if want[k] == 0 {
			*why = append(*why, fmt.Sprintf("entry %q (x%d) is not a fact of the document", k, n))
		}
	}
	for gk, s := range groups {
		for i := 0; i < len(s); i++ {
			if !s[i] {
				*why = append(*why, fmt.Sprintf("sibling indices of %s are not 0..n-1: %v", gk, keysOf(s)))
				break
			}
		}
	}
}

func keysOf(m map[int]bool) []int {
	var out []int
	for k := range m {
		out = append(out, k)
	}
	sort.Ints(out)
	return out
}

func propOf(why []string) *PropRes {
	if len(why) == 0 {
		return &PropRes{OK: true}
	}
	if len(why) > 4 {
		why = why[:4]
	}
	return &PropRes{OK: false, Why: strings.Join(why, "; ")}
}

func withSafe(b bool) merklize.MerklizeOption { return merklize.WithSafeMode(b) }
