package main

import (
	"encoding/json"
	"fmt"

	"github.com/iden3/go-schema-processor/v2/verifiable"
)

// an authentication entry of a DID document against the model (Lean: Gsp.DidDoc.authDecode / authEncode; theorems
// Props.C14.auth_roundtrip, auth_kind, auth_other_kinds_refused, empty_reference_becomes_empty_method): a JSON string is a reference,
// a JSON object an embedded method, anything else an error - and the entry is the same entry after encoding and decoding again.

func emitDidAuth(out *Out, r *Rng) {
	var j any
	kind := ""
	switch k := r.Intn(12); {
	case k < 4:
		kind = "reference"
		j = r.Pick([]string{"did:iden3:polygon:amoy:x7Z95VkUuyo6mqraJw2VGwCfqTzdqhM1RVjRHzcpK#key-1", "did:ex:1?service=a&x=%20y#f", "#k", "did:ex:é", "a\"b\\c", " did:pad ", "did:ex:" + fmt.Sprint(r.Intn(1000))})
	case k < 8:
		kind = "embedded"
		m := J{"id": "did:ex:1#k" + fmt.Sprint(r.Intn(9)), "type": r.Pick([]string{"Iden3StateInfo2023", "JsonWebKey2020", "EcdsaSecp256k1RecoveryMethod2020"}), "controller": "did:ex:1"}
		if r.Bool() {
			m["publicKeyHex"] = randHex(r, 16)
		}
		if r.Bool() {
			m["published"] = r.Bool()
		}
		if r.Chance(30) {
			m["somethingElse"] = J{"x": 1}
		}
		if r.Chance(15) {
			m = J{}
		}
		j = m
	case k < 9:
		kind = "empty-string"
		j = ""
	default:
		kind = "other"
		j = []any{nil, true, false, 0, 7.5, []any{}, []any{"did:ex:1#k"}, []any{J{"id": "x"}}}[r.Intn(8)]
	}
	b, _ := json.Marshal(j)
	var why []string
	show := func(a *verifiable.Authentication) any {
		if a.IsDID() {
			return J{"ref": a.DID()}
		}
		return "method"
	}
	impl := J{"err": "err"}
	var a verifiable.Authentication
	if err := json.Unmarshal(b, &a); err == nil {
		// encode and decode again
		b2, err2 := json.Marshal(&a)
		var a2 verifiable.Authentication
		if err2 != nil {
			impl = J{"err": "unstable"}
			why = append(why, fmt.Sprintf("an authentication entry that decodes (%s) cannot be encoded: %v", b, err2))
		} else if err3 := json.Unmarshal(b2, &a2); err3 != nil {
			impl = J{"err": "unstable"}
			why = append(why, fmt.Sprintf("the encoding %s of the authentication entry %s does not decode: %v", b2, b, err3))
		} else {
			impl = J{"ok": J{"first": show(&a), "again": show(&a2)}}
			b3, _ := json.Marshal(&a2)
			if string(b3) != string(b2) {
				why = append(why, fmt.Sprintf("authentication entry %s is not stable: encoded as %s, then as %s", b, b2, b3))
			}
			if kind == "reference" && (!a2.IsDID() || a2.DID() != j.(string)) {
				why = append(why, fmt.Sprintf("the reference %s comes back as %s", b, b3))
			}
			if kind == "embedded" && a2.IsDID() {
				why = append(why, fmt.Sprintf("the embedded method %s comes back as a reference %s", b, b3))
			}
		}
	} else if kind == "reference" || kind == "embedded" {
		why = append(why, fmt.Sprintf("authentication entry %s (%s) does not decode: %v", b, kind, err))
	}
	if kind == "other" && impl["err"] == nil {
		why = append(why, fmt.Sprintf("%s is neither a reference nor an embedded method but decodes as an authentication entry", b))
	}
	out.Emit(Case{Op: "did.auth", In: J{"j": j}, Impl: impl, Prop: propOf(why), Tags: []string{"did-auth", "kind:" + kind}, NT: kind != "other"})
}
