module gspharness

go 1.18

require (
	github.com/iden3/go-iden3-core/v2 v2.3.1
	github.com/iden3/go-iden3-crypto v0.0.17
	github.com/iden3/go-merkletree-sql/v2 v2.0.4
	github.com/iden3/go-schema-processor/v2 v2.0.0
	github.com/piprate/json-gold v0.5.1-0.20241210232033-19254b3ec65b
	github.com/pquerna/cachecontrol v0.0.0-20180517163645-1555304b9b35
	github.com/santhosh-tekuri/jsonschema/v5 v5.3.0
	golang.org/x/crypto v0.12.0
)

require (
	github.com/dchest/blake512 v1.0.0 // indirect
	github.com/mr-tron/base58 v1.2.0 // indirect
	github.com/pkg/errors v0.9.1 // indirect
	golang.org/x/sys v0.15.0 // indirect
)

replace github.com/iden3/go-schema-processor/v2 => /repo
