package main

import (
	"context"
	"encoding/json"
	"fmt"
	"math/big"
	"net/url"
	"strings"
	"time"

	"github.com/iden3/go-merkletree-sql/v2"
	"github.com/iden3/go-schema-processor/v2/merklize"
)

func cpParts(p []interface{}) []interface{} { return append([]interface{}{}, p...) }

// member and systematically derived non-member paths
func queriesFor(ents []merklize.RDFEntry, r *Rng, maxQ int) [][]interface{} {
	var qs [][]interface{}
	seen := map[string]bool{}
	add := func(p []interface{}) {
		if len(p) == 0 || len(p) > 14 {
			return
		}
		k := fmt.Sprintf("%#v", p)
		if !seen[k] {
			seen[k] = true
			qs = append(qs, p)
		}
	}
	for _, e := range ents {
		add(cpParts(e.VerifKeyParts()))
	}
	nMembers := len(qs)
	order := r.Perm(len(ents))
	for _, ei := range order {
		if len(qs) >= nMembers+maxQ {
			break
		}
		parts := ents[ei].VerifKeyParts()
		// every proper prefix
		for i := 1; i < len(parts); i++ {
			add(cpParts(parts[:i]))
		}
		// one-part extensions
		add(append(cpParts(parts), "urn:ex:v#extra"))
		add(append(cpParts(parts), 0))
		// sibling indices n and n+1 (n = number of siblings sharing the prefix), index on a non-indexed part
		for i, p := range parts {
			switch p.(type) {
			case int:
				cnt := 0
				for _, e2 := range ents {
					p2 := e2.VerifKeyParts()
					if len(p2) > i && fmt.Sprint(p2[:i]) == fmt.Sprint(parts[:i]) {
						if v, ok := p2[i].(int); ok && v+1 > cnt {
							cnt = v + 1
						}
					}
				}
				for _, v := range []int{cnt, cnt + 1} {
					q := cpParts(parts)
					q[i] = v
					add(q)
				}
				// the index dropped
				add(append(cpParts(parts[:i]), parts[i+1:]...))
			case string:
				if i+1 >= len(parts) || fmt.Sprintf("%T", parts[i+1]) != "int" {
					q := append(cpParts(parts[:i+1]), 0)
					q = append(q, parts[i+1:]...)
					add(q)
				}
				q := cpParts(parts)
				q[i] = "urn:ex:fresh#" + fmt.Sprint(r.Intn(1000))
				add(q)
			}
		}
	}
	add([]interface{}{"urn:unrelated"})
	add([]interface{}{"urn:unrelated", 3, "urn:x"})
	add([]interface{}{0})
	add([]interface{}{1, 2})
	return qs
}

// emitDocQ: like emitDoc, with queries; membership expectation = "the parts equal some entry's key"
func emitDocQ(out *Out, g *DocGen, root *ANode, p *Presentation, hs HSpec, maxQ int, extraTags ...string) {
	doc := g.Render(root, p)
	loader := &mapLoader{docs: map[string][]byte{g.sch.URL: g.ContextDoc()}}
	var facts []Fact
	factsOf(root, nil, nil, &facts)
	tags, _ := docTags(root, facts)
	tags = append(append(tags, "h:"+hs.Name), extraTags...)
	c := Case{Op: "mz.doc", In: J{"doc": string(doc)}, Tags: tags, NT: true}
	setCurrent(out, &c)
	// first pass without queries to learn the entries
	run0 := runMerklize(doc, hs, loader, true)
	var queries [][]interface{}
	if run0.Err == nil {
		ds, err := normalize(doc, loader, true)
		if err == nil {
			if ents, err := merklize.EntriesFromRDFWithHasher(ds, hs.H); err == nil {
				queries = queriesFor(ents, g.r, maxQ)
			}
		}
	}
	impl, run, dsJ, canon, why := docImpl(doc, hs, loader, true, queries)
	nMember, nNon := 0, 0
	if run.Err == nil {
		// membership is decided where the tree decides it: on the key hash (with the small-prime test hashers two different
		// paths can share a hash; such a path *is* a key of the tree)
		member := map[string]bool{}
		for _, e := range run.Entries {
			if kh, err := e.KeyMtEntry(); err == nil {
				member[kh.String()] = true
			}
		}
		keyOf := func(parts []interface{}) string {
			p, err := run.Mz.Options().NewPath(parts...)
			if err != nil {
				return "?"
			}
			kh, err := p.MtEntry()
			if err != nil {
				return "?"
			}
			return kh.String()
		}
		if okv, ok := impl["ok"].(J); ok {
			if qr, ok := okv["q"].([]any); ok {
				for i, x := range qr {
					xj, _ := x.(J)
					if xj == nil {
						continue
					}
					if _, isErr := xj["err"]; isErr {
						why = append(why, fmt.Sprintf("Proof returned an error for %v", queries[i]))
						continue
					}
					ex, _ := xj["ex"].(bool)
					want := member[keyOf(queries[i])]
					if want {
						nMember++
					} else {
						nNon++
					}
					if ex != want {
						why = append(why, fmt.Sprintf("path %v: existence=%v but membership=%v", queries[i], ex, want))
					}
				}
			}
		}
		// membership decided by the document itself (not by the entries the code derived from it)
		if hs.Prime.BitLen() > 200 {
			nd, na := documentPathsPredicate(run.Mz, root, g.r, &why)
			c.Tags = append(c.Tags, fmt.Sprintf("docpaths:%d", nd/10*10), fmt.Sprintf("respelled-absent:%d", na/5*5))
		}
	} else if hs.Prime.BitLen() > 200 {
		why = append(why, "well-formed tree-shaped document was not merklized: "+run.Err.Error())
	}
	qj := make([]any, len(queries))
	for i, q := range queries {
		qj[i] = partsJ(q)
	}
	c.In = J{"h": hs.JSON, "ds": dsJ, "canon": canon, "queries": qj, "doc": string(doc)}
	c.Impl = impl
	c.Prop = propOf(why)
	c.Tags = append(c.Tags, fmt.Sprintf("members:%d", nMember/10*10), fmt.Sprintf("nonmembers:%d", nNon/10*10))
	if dsJ == nil {
		c.Op = "none"
	}
	setCurrent(nil, nil)
	out.Emit(c)
}

// two top-level nodes of the same type in one @graph array: their fields have the same paths. Such a document cannot be
// merklized (two leaves would need one key); if it is accepted all the same, every leaf must still be provable with the
// value handed out - which docImpl checks (map size == entries == leaves) together with the queries.
func emitCollisionDoc(out *Out, g *DocGen, r *Rng, hs HSpec) {
	a := g.node(g.sch.Root, 0, true)
	b := g.node(g.sch.Root, 0, true)
	p := plainPresentation(r)
	p.ctxMode = 1
	var ja, jb map[string]any
	if json.Unmarshal(g.Render(a, p), &ja) != nil || json.Unmarshal(g.Render(b, p), &jb) != nil {
		return
	}
	ctx := ja["@context"]
	delete(ja, "@context")
	delete(jb, "@context")
	doc, _ := json.Marshal(map[string]any{"@context": ctx, "@graph": []any{ja, jb}})
	loader := &mapLoader{docs: map[string][]byte{g.sch.URL: g.ContextDoc()}}
	c := Case{Op: "mz.doc", In: J{"doc": string(doc)}, Tags: []string{"shape:colliding-top-level-nodes", "h:" + hs.Name}, NT: true}
	setCurrent(out, &c)
	var queries [][]interface{}
	if ds, err := normalize(doc, loader, true); err == nil {
		if ents, err := merklize.EntriesFromRDFWithHasher(ds, hs.H); err == nil {
			queries = queriesFor(ents, r, 20)
		}
	}
	impl, run, dsJ, canon, why := docImpl(doc, hs, loader, true, queries)
	if run.Err == nil {
		// accepted: then at least every handed-out value must verify (queryImpl) and the counts must agree (docImpl)
		c.Tags = append(c.Tags, "accepted")
	}
	qj := make([]any, len(queries))
	for i, q := range queries {
		qj[i] = partsJ(q)
	}
	c.In = J{"h": hs.JSON, "ds": dsJ, "canon": canon, "queries": qj, "doc": string(doc)}
	c.Impl = impl
	c.Prop = propOf(why)
	if dsJ == nil {
		c.Op = "none"
	}
	setCurrent(nil, nil)
	out.Emit(c)
}

// ---------- membership by the document ----------
//
// The property speaks about paths that denote an entry *of the document*. The oracle here is the abstract document the
// JSON-LD was rendered from: a leaf at the end of the chain of property IRIs (exactly as the document's context spells them),
// with a position after every property that has several values. Which sibling gets which position is not the property's
// business (canonical order), so positions are matched existentially: the n values of a property occupy the positions
// 0..n-1 in some order. Nothing is asked about the values themselves (that is C01) - only what C02 says: existence proof,
// a Value, the proof verifies against Root() for (hash of the path, hash of that Value), Entry and JSONLDType succeed; and
// for a path that denotes nothing: non-existence proof that verifies, nil Value, Entry and JSONLDType fail.

type pathProbe struct {
	exists bool
	bad    bool // Proof itself failed / hung
}

type docOracle struct {
	mz     *merklize.Merklizer
	cache  map[string]pathProbe
	probed [][]interface{} // every admissible concrete path asked for, in order
	why    *[]string
}

// probe asks the real code about one path and checks everything C02 says must hold whatever the answer is.
func (o *docOracle) probe(parts []interface{}, remember bool) pathProbe {
	k := fmt.Sprintf("%#v", parts)
	if pr, ok := o.cache[k]; ok {
		return pr
	}
	if remember {
		o.probed = append(o.probed, cpParts(parts))
	}
	ctx := context.Background()
	pr, err := guard(4*time.Second, func() (pathProbe, error) {
		p, err := o.mz.Options().NewPath(parts...)
		if err != nil {
			return pathProbe{}, err
		}
		proof, val, err := o.mz.Proof(ctx, p)
		if err != nil {
			return pathProbe{}, err
		}
		if proof == nil {
			return pathProbe{}, errNilNil
		}
		kh, err := p.MtEntry()
		if err != nil {
			return pathProbe{}, err
		}
		root := o.mz.Root()
		if proof.Existence {
			if val == nil {
				*o.why = append(*o.why, fmt.Sprintf("existence proof without a Value for %v", parts))
			} else if vh, err := val.MtEntry(); err != nil {
				*o.why = append(*o.why, fmt.Sprintf("Value.MtEntry failed for %v: %v", parts, err))
			} else if !merkletree.VerifyProof(root, proof, kh, vh) {
				*o.why = append(*o.why, fmt.Sprintf("existence proof does not verify against Root() for %v", parts))
			}
		} else {
			if val != nil {
				*o.why = append(*o.why, fmt.Sprintf("non-existence proof with a non-nil Value for %v", parts))
			}
			if !merkletree.VerifyProof(root, proof, kh, big.NewInt(0)) {
				*o.why = append(*o.why, fmt.Sprintf("non-existence proof does not verify against Root() for %v", parts))
			}
		}
		_, eerr := o.mz.Entry(p)
		_, terr := o.mz.JSONLDType(p)
		if (eerr == nil) != proof.Existence || (terr == nil) != proof.Existence {
			*o.why = append(*o.why, fmt.Sprintf("Entry/JSONLDType success (%v/%v) differs from proof existence %v for %v", eerr == nil, terr == nil, proof.Existence, parts))
		}
		return pathProbe{exists: proof.Existence}, nil
	})
	if err != nil {
		*o.why = append(*o.why, fmt.Sprintf("Proof returned an error for %v: %s", parts, errClass(err)))
		pr = pathProbe{bad: true}
	}
	o.cache[k] = pr
	return pr
}

// nodeAt: are all leaves of the abstract node n provable when n sits at prefix? miss names the first leaf that is not.
func (o *docOracle) nodeAt(n *ANode, prefix []interface{}) (ok bool, miss string) {
	ok = true
	note := func(format string, a ...any) {
		if ok {
			ok, miss = false, fmt.Sprintf(format, a...)
		}
	}
	leaf := func(parts []interface{}, what string) {
		if pr := o.probe(parts, true); !pr.exists && !pr.bad {
			note("path %v denotes a leaf of the document (%s), but Proof returned a non-existence proof", parts, what)
		}
	}
	ext := func(x ...interface{}) []interface{} { return append(cpParts(prefix), x...) }
	if n.Type != nil {
		leaf(ext(rdfType), "the type "+n.Type.IRI)
	}
	for _, f := range n.Fields {
		t, cnt := f.Term, len(f.Vals)
		if cnt == 1 {
			v := f.Vals[0]
			switch {
			case v.Lit != nil:
				leaf(ext(t.IRI), "the only value of "+t.Name)
			case v.Node != nil:
				if v.Node.ID != "" && t.Kind != "graph" {
					leaf(ext(t.IRI), "the identifier of the only value of "+t.Name)
				}
				if cok, cm := o.nodeAt(v.Node, ext(t.IRI)); !cok {
					note("%s", cm)
				}
			default:
				leaf(ext(t.IRI), "the only value of "+t.Name)
			}
			continue
		}
		// several values: positions 0..cnt-1, in some order
		if f.Vals[0].Node == nil {
			for i := 0; i < cnt; i++ {
				leaf(ext(t.IRI, i), fmt.Sprintf("one of the %d values of %s", cnt, t.Name))
			}
			continue
		}
		ids := 0
		for _, v := range f.Vals {
			if v.Node.ID != "" && t.Kind != "graph" {
				ids++
			}
		}
		if ids > 0 {
			have := 0
			for i := 0; i < cnt; i++ {
				if o.probe(ext(t.IRI, i), true).exists {
					have++
				}
			}
			if have < ids {
				note("%d of the %d values of %s carry an identifier, but only %d of the paths %v have an existence proof", ids, cnt, t.Name, have, ext(t.IRI, "0.."+fmt.Sprint(cnt-1)))
			}
		}
		fits := make([][]bool, cnt)
		misses := make([][]string, cnt)
		for vi, v := range f.Vals {
			fits[vi] = make([]bool, cnt)
			misses[vi] = make([]string, cnt)
			for i := 0; i < cnt; i++ {
				fits[vi][i], misses[vi][i] = o.nodeAt(v.Node, ext(t.IRI, i))
			}
		}
		if !perfectMatching(fits) {
			m := ""
			for vi := range misses {
				all := true
				for i := range misses[vi] {
					all = all && !fits[vi][i]
				}
				if all {
					m = misses[vi][0]
					break
				}
			}
			note("the %d values of %s cannot be found at the positions 0..%d under %v in any order; e.g. %s", cnt, t.Name, cnt-1, ext(t.IRI), m)
		}
	}
	return ok, miss
}

func perfectMatching(fits [][]bool) bool {
	n := len(fits)
	used := make([]bool, n)
	var rec func(v int) bool
	rec = func(v int) bool {
		if v == n {
			return true
		}
		for i := 0; i < n; i++ {
			if !used[i] && fits[v][i] {
				used[i] = true
				if rec(v + 1) {
					return true
				}
				used[i] = false
			}
		}
		return false
	}
	return rec(0)
}

// iriRespellings: other identifiers that a URI normaliser would call "the same" as s. As identifiers (strings) they are
// different ones: RFC 3986 re-serialisation (Go's net/url), percent-encoding of what is not ASCII, percent-decoding, case of
// the scheme / of everything / of the hex digits, an empty fragment or a trailing slash more or less, default ports, dot segments.
func iriRespellings(s string) []string {
	var out []string
	seen := map[string]bool{s: true, "": true}
	add := func(x string) {
		if !seen[x] {
			seen[x] = true
			out = append(out, x)
		}
	}
	if u, err := url.Parse(s); err == nil {
		add(u.String())
		if u.Host != "" {
			add(u.JoinPath().String())
			v := *u
			v.Host = strings.ToLower(u.Host)
			add(v.String())
		}
	}
	var enc strings.Builder
	for i := 0; i < len(s); i++ {
		if s[i] >= 0x80 {
			fmt.Fprintf(&enc, "%%%02X", s[i])
		} else {
			enc.WriteByte(s[i])
		}
	}
	add(enc.String())
	add(strings.ToLower(enc.String()))
	if d, err := url.PathUnescape(s); err == nil {
		add(d)
	}
	add(strings.ToLower(s))
	if i := strings.Index(s, ":"); i > 0 {
		add(strings.ToUpper(s[:i]) + s[i:])
		add(strings.ToLower(s[:i]) + s[i:])
	}
	add(strings.TrimSuffix(s, "#"))
	add(strings.TrimSuffix(s, "/"))
	add(strings.TrimSuffix(s, "?"))
	add(s + "#")
	add(s + "/")
	add(strings.Replace(s, ":443/", "/", 1))
	add(strings.Replace(s, ":80/", "/", 1))
	add(strings.Replace(s, "/a/../", "/", 1))
	add(strings.Replace(s, "/vocab", "/./vocab", 1))
	return out
}

func allTermIRIs(td *TypeDef, into map[string]bool) {
	into[td.IRI] = true
	for _, t := range td.Terms {
		into[t.IRI] = true
		if t.Child != nil {
			allTermIRIs(t.Child, into)
		}
	}
}

// documentPathsPredicate: every leaf of the abstract document is provable under the path of its property IRIs, and a path
// in which one of those IRIs is replaced by another spelling (an identifier the document does not use) is provably absent.
func documentPathsPredicate(mz *merklize.Merklizer, root *ANode, r *Rng, why *[]string) (nDoc, nAbsent int) {
	var mine []string
	o := &docOracle{mz: mz, cache: map[string]pathProbe{}, why: &mine}
	if ok, miss := o.nodeAt(root, nil); !ok {
		mine = append([]string{miss}, mine...)
	}
	nDoc = len(o.probed)
	// the document's own property IRIs (and rdf:type): a respelling that happens to be one of them is left alone
	own := map[string]bool{rdfType: true}
	var walk func(n *ANode)
	walk = func(n *ANode) {
		if n.Type != nil {
			allTermIRIs(n.Type, own)
		}
		for _, f := range n.Fields {
			own[f.Term.IRI] = true
			for _, v := range f.Vals {
				if v.Node != nil {
					walk(v.Node)
				}
			}
		}
	}
	walk(root)
	base := o.probed
	for _, pi := range r.Perm(len(base)) {
		if nAbsent >= 12 {
			break
		}
		parts := base[pi]
		var pos []int
		for i, p := range parts {
			if _, ok := p.(string); ok {
				pos = append(pos, i)
			}
		}
		if len(pos) == 0 {
			continue
		}
		at := pos[r.Intn(len(pos))]
		alts := iriRespellings(parts[at].(string))
		alt := alts[r.Intn(len(alts))]
		if own[alt] {
			continue
		}
		q := cpParts(parts)
		q[at] = alt
		nAbsent++
		if pr := o.probe(q, false); pr.exists {
			mine = append(mine, fmt.Sprintf("path %v does not denote anything in the document (the document's property is %q, a different identifier), but Proof returned an existence proof", q, parts[at]))
		}
	}
	*why = append(*why, mine...)
	return nDoc, nAbsent
}

// ---------- vocabularies that are not written in ASCII ----------

var c02Scripts = []string{"prénom", "âge", "Straße", "имя", "όνομα", "名前", "語彙", "이름", "اسم", "नाम", "שם", "tên-gọi", "e\u0301", "😀", "𝒳", "𠀋", "ﬁ", "İ", "ǅ", "ÿ"}

// i18nIRI: a property IRI in the sense of RFC 3987 (or with a presentation a URI normaliser would touch), unique through
// the term's own name. Where the unusual characters sit (authority, path, query, fragment), how many there are and of which
// script varies.
func i18nIRI(r *Rng, name string) string {
	w := func() string {
		s := r.Pick(c02Scripts)
		if r.Chance(25) {
			s += r.Pick(c02Scripts)
		}
		return s
	}
	scheme := r.Pick([]string{"https", "https", "http", "HTTPS", "Http", "urn"})
	if scheme == "urn" {
		return r.Pick([]string{"urn:ex:v#", "urn:ex:" + w() + ":", "urn:ex:v:" + w() + "#", "URN:ex:v#"}) + r.Pick([]string{name + w(), w() + name, name + "-" + w(), name})
	}
	host := r.Pick([]string{"example.com", "exemple.fr", "例え.jp", "пример.рф", "Example.ORG", "example.com:8443"})
	switch r.Intn(7) {
	case 0:
		return fmt.Sprintf("%s://%s/vocabulaire#%s%s", scheme, host, name, w())
	case 1:
		return fmt.Sprintf("%s://%s/%s/%s", scheme, host, w(), name)
	case 2:
		return fmt.Sprintf("%s://%s/%s/%s#%s", scheme, host, w(), w(), name)
	case 3:
		return fmt.Sprintf("%s://%s/vocab?ns=%s#%s", scheme, host, w(), name)
	case 4:
		return fmt.Sprintf("%s://%s/vocab/%s%s#", scheme, host, name, r.Pick([]string{"", w()}))
	case 5:
		return fmt.Sprintf("%s://%s/vocab/%s-%s", scheme, host, w(), name)
	default:
		return fmt.Sprintf("%s://%s/v/%s", scheme, host, name)
	}
}

func i18nVocabulary(td *TypeDef, r *Rng, pct int) {
	for _, t := range td.Terms {
		if r.Chance(pct) {
			t.IRI = i18nIRI(r, t.Name)
		}
		if t.Child != nil {
			i18nVocabulary(t.Child, r, pct)
		}
	}
}

func genC02(out *Out, r *Rng, tier string, n int, shard int) {
	for i := 0; i < n; i++ {
		g := NewDocGen(r, 1+r.Intn(3))
		g.nativeInStr = true
		if i%3 == 2 {
			// a vocabulary of another language: a few of its property IRIs, or most of them
			i18nVocabulary(g.sch.Root, r, []int{15, 40, 80}[r.Intn(3)])
		}
		root := g.node(g.sch.Root, 0, r.Bool())
		if i%4 == 1 {
			emitCollisionDoc(out, g, r, hPoseidon())
		}
		emitDocQ(out, g, root, randomPresentation(r), hPoseidon(), 40)
		emitSmtStream(out, r, 8+r.Intn(40))
	}
}

func init() { gens["C02"] = genC02 }
