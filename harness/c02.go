package main

import (
	"encoding/json"
	"fmt"

	"github.com/iden3/go-schema-processor/v2/merklize"
)

func cpParts(p []interface{}) []interface{} { return append([]interface{}{}, p...) }

// member and systematically derived non-member paths
func queriesFor(ents []merklize.RDFEntry, r *Rng, maxQ int) [][]interface{} {
	var qs [][]interface{}
	seen := map[string]bool{}
	add := func(p []interface{}) {
		if len(p) == 0 || len(p) > 14 {
			return
		}
		k := fmt.Sprintf("%#v", p)
		if !seen[k] {
			seen[k] = true
			qs = append(qs, p)
		}
	}
	for _, e := range ents {
		add(cpParts(e.VerifKeyParts()))
	}
	nMembers := len(qs)
	order := r.Perm(len(ents))
	for _, ei := range order {
		if len(qs) >= nMembers+maxQ {
			break
		}
		parts := ents[ei].VerifKeyParts()
		// every proper prefix
		for i := 1; i < len(parts); i++ {
			add(cpParts(parts[:i]))
		}
		// one-part extensions
		add(append(cpParts(parts), "urn:ex:v#extra"))
		add(append(cpParts(parts), 0))
		// sibling indices n and n+1 (n = number of siblings sharing the prefix), index on a non-indexed part
		for i, p := range parts {
			switch p.(type) {
			case int:
				cnt := 0
				for _, e2 := range ents {
					p2 := e2.VerifKeyParts()
					if len(p2) > i && fmt.Sprint(p2[:i]) == fmt.Sprint(parts[:i]) {
						if v, ok := p2[i].(int); ok && v+1 > cnt {
							cnt = v + 1
						}
					}
				}
				for _, v := range []int{cnt, cnt + 1} {
					q := cpParts(parts)
					q[i] = v
					add(q)
				}
				// the index dropped
				add(append(cpParts(parts[:i]), parts[i+1:]...))
			case string:
				if i+1 >= len(parts) || fmt.Sprintf("%T", parts[i+1]) != "int" {
					q := append(cpParts(parts[:i+1]), 0)
					q = append(q, parts[i+1:]...)
					add(q)
				}
				q := cpParts(parts)
				q[i] = "urn:ex:fresh#" + fmt.Sprint(r.Intn(1000))
				add(q)
			}
		}
	}
	add([]interface{}{"urn:unrelated"})
	add([]interface{}{"urn:unrelated", 3, "urn:x"})
	add([]interface{}{0})
	add([]interface{}{1, 2})
	return qs
}

// emitDocQ: like emitDoc, with queries; membership expectation = "the parts equal some entry's key"
func emitDocQ(out *Out, g *DocGen, root *ANode, p *Presentation, hs HSpec, maxQ int, extraTags ...string) {
	doc := g.Render(root, p)
	loader := &mapLoader{docs: map[string][]byte{g.sch.URL: g.ContextDoc()}}
	var facts []Fact
	factsOf(root, nil, nil, &facts)
	tags, _ := docTags(root, facts)
	tags = append(append(tags, "h:"+hs.Name), extraTags...)
	c := Case{Op: "mz.doc", In: J{"doc": string(doc)}, Tags: tags, NT: true}
	setCurrent(out, &c)
	// first pass without queries to learn the entries
	run0 := runMerklize(doc, hs, loader, true)
	var queries [][]interface{}
	if run0.Err == nil {
		ds, err := normalize(doc, loader, true)
		if err == nil {
			if ents, err := merklize.EntriesFromRDFWithHasher(ds, hs.H); err == nil {
				queries = queriesFor(ents, g.r, maxQ)
			}
		}
	}
	impl, run, dsJ, canon, why := docImpl(doc, hs, loader, true, queries)
	nMember, nNon := 0, 0
	if run.Err == nil {
		// membership is decided where the tree decides it: on the key hash (with the small-prime test hashers two different
		// paths can share a hash; such a path *is* a key of the tree)
		member := map[string]bool{}
		for _, e := range run.Entries {
			if kh, err := e.KeyMtEntry(); err == nil {
				member[kh.String()] = true
			}
		}
		keyOf := func(parts []interface{}) string {
			p, err := run.Mz.Options().NewPath(parts...)
			if err != nil {
				return "?"
			}
			kh, err := p.MtEntry()
			if err != nil {
				return "?"
			}
			return kh.String()
		}
		if okv, ok := impl["ok"].(J); ok {
			if qr, ok := okv["q"].([]any); ok {
				for i, x := range qr {
					xj, _ := x.(J)
					if xj == nil {
						continue
					}
					if _, isErr := xj["err"]; isErr {
						why = append(why, fmt.Sprintf("Proof returned an error for %v", queries[i]))
						continue
					}
					ex, _ := xj["ex"].(bool)
					want := member[keyOf(queries[i])]
					if want {
						nMember++
					} else {
						nNon++
					}
					if ex != want {
						why = append(why, fmt.Sprintf("path %v: existence=%v but membership=%v", queries[i], ex, want))
					}
				}
			}
		}
	} else if hs.Prime.BitLen() > 200 {
		why = append(why, "well-formed tree-shaped document was not merklized: "+run.Err.Error())
	}
	qj := make([]any, len(queries))
	for i, q := range queries {
		qj[i] = partsJ(q)
	}
	c.In = J{"h": hs.JSON, "ds": dsJ, "canon": canon, "queries": qj, "doc": string(doc)}
	c.Impl = impl
	c.Prop = propOf(why)
	c.Tags = append(c.Tags, fmt.Sprintf("members:%d", nMember/10*10), fmt.Sprintf("nonmembers:%d", nNon/10*10))
	if dsJ == nil {
		c.Op = "none"
	}
	setCurrent(nil, nil)
	out.Emit(c)
}

// two top-level nodes of the same type in one @graph array: their fields have the same paths. Such a document cannot be
// merklized (two leaves would need one key); if it is accepted all the same, every leaf must still be provable with the
// value handed out - which docImpl checks (map size == entries == leaves) together with the queries.
func emitCollisionDoc(out *Out, g *DocGen, r *Rng, hs HSpec) {
	a := g.node(g.sch.Root, 0, true)
	b := g.node(g.sch.Root, 0, true)
	p := plainPresentation(r)
	p.ctxMode = 1
	var ja, jb map[string]any
	if json.Unmarshal(g.Render(a, p), &ja) != nil || json.Unmarshal(g.Render(b, p), &jb) != nil {
		return
	}
	ctx := ja["@context"]
	delete(ja, "@context")
	delete(jb, "@context")
	doc, _ := json.Marshal(map[string]any{"@context": ctx, "@graph": []any{ja, jb}})
	loader := &mapLoader{docs: map[string][]byte{g.sch.URL: g.ContextDoc()}}
	c := Case{Op: "mz.doc", In: J{"doc": string(doc)}, Tags: []string{"shape:colliding-top-level-nodes", "h:" + hs.Name}, NT: true}
	setCurrent(out, &c)
	var queries [][]interface{}
	if ds, err := normalize(doc, loader, true); err == nil {
		if ents, err := merklize.EntriesFromRDFWithHasher(ds, hs.H); err == nil {
			queries = queriesFor(ents, r, 20)
		}
	}
	impl, run, dsJ, canon, why := docImpl(doc, hs, loader, true, queries)
	if run.Err == nil {
		// accepted: then at least every handed-out value must verify (queryImpl) and the counts must agree (docImpl)
		c.Tags = append(c.Tags, "accepted")
	}
	qj := make([]any, len(queries))
	for i, q := range queries {
		qj[i] = partsJ(q)
	}
	c.In = J{"h": hs.JSON, "ds": dsJ, "canon": canon, "queries": qj, "doc": string(doc)}
	c.Impl = impl
	c.Prop = propOf(why)
	if dsJ == nil {
		c.Op = "none"
	}
	setCurrent(nil, nil)
	out.Emit(c)
}

func genC02(out *Out, r *Rng, tier string, n int, shard int) {
	for i := 0; i < n; i++ {
		g := NewDocGen(r, 1+r.Intn(3))
		g.nativeInStr = true
		root := g.node(g.sch.Root, 0, r.Bool())
		if i%4 == 1 {
			emitCollisionDoc(out, g, r, hPoseidon())
		}
		emitDocQ(out, g, root, randomPresentation(r), hPoseidon(), 40)
		emitSmtStream(out, r, 8+r.Intn(40))
	}
}

func init() { gens["C02"] = genC02 }
