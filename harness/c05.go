package main

import (
	"bytes"
	"context"
	"encoding/json"
	"fmt"
	"math/big"
	"reflect"
	"time"

	core "github.com/iden3/go-iden3-core/v2"
	"github.com/iden3/go-iden3-core/v2/w3c"
	"github.com/iden3/go-schema-processor/v2/merklize"
	"github.com/iden3/go-schema-processor/v2/verifiable"
)

const vcTypeIRI = "https://www.w3.org/2018/credentials#VerifiableCredential"

func (c *ACred) expandType(name string) string {
	switch name {
	case "VerifiableCredential":
		return vcTypeIRI
	case c.TypeName:
		return c.TypeIRI
	}
	return "urn:ex:other#" + name
}

// abstract model input for the credential
func (c *ACred) modelIn(root *big.Int) J {
	var subjT []any
	switch c.SubjectTypeAs {
	case "string":
		subjT = []any{c.TypeIRI}
	case "array2":
		subjT = []any{c.TypeIRI, c.expandType(c.OtherType)}
	default:
		subjT = []any{}
	}
	var topT []any
	for _, t := range c.TopTypes {
		topT = append(topT, c.expandType(t))
	}
	schemaOf := J{}
	attrOf := J{}
	for _, t := range append(append([]any{}, subjT...), topT...) {
		ts := t.(string)
		schemaOf[ts] = keccakLast16LE(ts).String()
		if ts == c.TypeIRI {
			attrOf[ts] = c.SerAttr
		} else {
			attrOf[ts] = ""
		}
	}
	fields := J{}
	hs := hPoseidon()
	for _, f := range c.Fields {
		if f.Absent {
			continue
		}
		var v *big.Int
		switch f.Kind {
		case "int":
			x, _ := new(big.Int).SetString(f.Canon, 10)
			v, _ = valueHash(hs, x)
		case "bool":
			v, _ = valueHash(hs, f.Canon == "true")
		case "time":
			x, _ := new(big.Int).SetString(f.Canon, 10)
			v = x.Mod(x, hs.Prime)
		default:
			v, _ = valueHash(hs, f.Canon)
		}
		fields[f.Name] = bigS(v)
	}
	in := J{"mzOk": true, "subjectTypes": subjT, "topTypes": topT, "schemaOf": schemaOf, "attrOf": attrOf, "fields": fields, "root": root.String()}
	if c.Expiration != nil {
		in["exp"] = fmt.Sprint(c.Expiration.Unix())
	} else {
		in["exp"] = nil
	}
	if c.SubjectDID == "" {
		in["subject"] = nil
	} else {
		did, err := w3c.ParseDID(c.SubjectDID)
		if err != nil {
			in["subject"] = J{"err": "err"}
		} else if id, err := core.IDFromDID(*did); err != nil {
			in["subject"] = J{"err": "err"}
		} else {
			in["subject"] = J{"ok": leInt(id[:]).String()}
		}
	}
	return in
}

func optsJ(o *verifiable.CoreClaimOptions) any {
	if o == nil {
		return nil
	}
	return J{"nonce": fmt.Sprint(o.RevNonce), "ver": fmt.Sprint(o.Version), "subj": o.SubjectPosition, "root": o.MerklizedRootPosition, "upd": o.Updatable}
}

func claimSlotsJ(cl *core.Claim) []any {
	out := make([]any, 8)
	for i, s := range cl.RawSlotsAsInts() {
		out[i] = s.String()
	}
	return out
}

// the statement, read off literally and checked with an independent decoder
func checkClaimAgainstStatement(c *ACred, o *verifiable.CoreClaimOptions, cl *core.Claim, root *big.Int, in J, why *[]string) {
	s := cl.RawSlotsAsInts()
	two := func(n uint) *big.Int { return new(big.Int).Lsh(big.NewInt(1), n) }
	field := func(x *big.Int, shift, bits uint) *big.Int {
		y := new(big.Int).Rsh(x, shift)
		return y.Mod(y, two(bits))
	}
	eff := verifiable.CoreClaimOptions{SubjectPosition: "index"}
	if o != nil {
		eff = *o
	}
	if field(s[0], 0, 128).Cmp(keccakLast16LE(c.TypeIRI)) != 0 {
		*why = append(*why, "schema hash is not the last 16 bytes of Keccak-256 of the credential-type IRI")
	}
	if field(s[4], 0, 64).Uint64() != eff.RevNonce {
		*why = append(*why, "revocation nonce not as given")
	}
	if uint32(field(s[0], 160, 32).Uint64()) != eff.Version {
		*why = append(*why, "version not as given")
	}
	if (field(s[0], 132, 1).Sign() == 1) != eff.Updatable {
		*why = append(*why, "updatable flag not as given")
	}
	expFlag := field(s[0], 131, 1).Sign() == 1
	if expFlag != (c.Expiration != nil) {
		*why = append(*why, "expiration flag does not say whether an expiration date is present")
	}
	if c.Expiration != nil && field(s[4], 64, 64).Uint64() != uint64(c.Expiration.Unix()) {
		*why = append(*why, "expiration is not the Unix seconds of the expiration date")
	}
	if c.Expiration == nil && field(s[4], 64, 64).Sign() != 0 {
		*why = append(*why, "expiration bytes set without an expiration date")
	}
	subjFlag := field(s[0], 128, 3).Uint64()
	if sj, has := in["subject"].(J); has && sj["ok"] != nil {
		id, _ := new(big.Int).SetString(sj["ok"].(string), 10)
		wantFlag, slot, other := uint64(2), 1, 5
		if eff.SubjectPosition == "value" {
			wantFlag, slot, other = 3, 5, 1
		}
		if subjFlag != wantFlag || s[slot].Cmp(id) != 0 || s[other].Sign() != 0 {
			*why = append(*why, "subject identifier is not in the requested position")
		}
	} else if subjFlag != 0 || s[1].Sign() != 0 || s[5].Sign() != 0 {
		*why = append(*why, "an identifier is present although the subject has no id")
	}
	mrk := field(s[0], 133, 3).Uint64()
	if c.SerAttr == "" {
		wantFlag, slot := uint64(1), 2
		if eff.MerklizedRootPosition == "value" {
			wantFlag, slot = 2, 6
		}
		if mrk != wantFlag || s[slot].Cmp(root) != 0 {
			*why = append(*why, "the document's Merkle root is not in the requested (default: index) position")
		}
		for _, i := range []int{2, 3, 6, 7} {
			if i != slot && s[i].Sign() != 0 {
				*why = append(*why, "a data slot is set for a merklized schema")
			}
		}
	} else {
		if mrk != 0 {
			*why = append(*why, "merklized flag set for a schema with a serialization attribute")
		}
		want := map[string]*big.Int{}
		for _, part := range splitSer(c.SerAttr) {
			fs, has := in["fields"].(J)[part[1]].(string)
			if !has {
				*why = append(*why, fmt.Sprintf("a claim was built although the credential does not set the field %q that the attribute assigns to %s", part[1], part[0]))
				continue
			}
			fv, _ := new(big.Int).SetString(fs, 10)
			want[part[0]] = fv // the last assignment of a slot wins
		}
		for name, i := range map[string]int{"slotIndexA": 2, "slotIndexB": 3, "slotValueA": 6, "slotValueB": 7} {
			w := want[name]
			if w == nil {
				w = big.NewInt(0)
			}
			if s[i].Cmp(w) != 0 {
				*why = append(*why, fmt.Sprintf("raw slot %d does not hold the value encoding of the field designated by %s", i, name))
			}
		}
	}
}

func splitSer(attr string) [][2]string {
	var out [][2]string
	rest := attr[len("iden3:v1:"):]
	for _, p := range bytes.Split([]byte(rest), []byte("&")) {
		kv := bytes.SplitN(p, []byte("="), 2)
		if len(kv) == 2 {
			out = append(out, [2]string{string(kv[0]), string(kv[1])})
		}
	}
	return out
}

func randOpts(r *Rng) *verifiable.CoreClaimOptions {
	if r.Chance(8) {
		return nil
	}
	o := &verifiable.CoreClaimOptions{}
	o.RevNonce = []uint64{0, 1, 1<<64 - 1, r.U64()}[r.Intn(4)]
	o.Version = []uint32{0, 1, 1<<32 - 1, uint32(r.U64())}[r.Intn(4)]
	o.SubjectPosition = []string{"", "index", "value"}[r.Intn(3)]
	o.MerklizedRootPosition = []string{"", "index", "value"}[r.Intn(3)]
	o.Updatable = r.Bool()
	if r.Chance(4) {
		o.SubjectPosition = "elsewhere"
	}
	if r.Chance(4) {
		o.MerklizedRootPosition = "Index"
	}
	return o
}

func directRoot(c *ACred) (*big.Int, error) {
	mz, err := merklize.MerklizeJSONLD(context.Background(), bytes.NewReader(c.JSON()), merklize.WithDocumentLoader(c.loader()))
	if err != nil {
		return nil, err
	}
	return mz.Root().BigInt(), nil
}

func runToCoreClaim(vc *verifiable.W3CCredential, o *verifiable.CoreClaimOptions, c *ACred) (*core.Claim, error) {
	if o != nil {
		o.MerklizerOpts = []merklize.MerklizeOption{merklize.WithDocumentLoader(c.loader())}
	}
	return guard(10*time.Second, func() (*core.Claim, error) {
		cl, err := vc.ToCoreClaim(context.Background(), o)
		if err == nil && cl == nil {
			return nil, errNilNil
		}
		return cl, err
	})
}

func deepJSON(v any) string {
	b, _ := json.Marshal(v)
	return string(b)
}

func optsSnapshot(o *verifiable.CoreClaimOptions) string {
	if o == nil {
		return "nil"
	}
	return fmt.Sprintf("%d|%d|%q|%q|%v|%d", o.RevNonce, o.Version, o.SubjectPosition, o.MerklizedRootPosition, o.Updatable, len(o.MerklizerOpts))
}

func genC05(out *Out, r *Rng, tier string, n int, shard int) {
	// ToCoreClaim(nil) uses the default document loader
	for i := 0; i < n; i++ {
		c := randCred(r, r.Chance(45))
		switch x := r.Intn(20); {
		case x == 0:
			c.SubjectTypeAs, c.OtherType = "array2", "Extra"
		case x == 1:
			c.SubjectTypeAs = "none"
		case x == 2:
			c.SubjectTypeAs, c.TopTypes, c.OtherType = "none", []string{"VerifiableCredential", c.TypeName, "Extra"}, "Extra"
		case x == 4 || x == 5:
			// the subject says what it is; the top-level pair names another type next to VerifiableCredential
			c.SubjectTypeAs, c.OtherType = "string", "Extra"
			c.TopTypes = []string{"VerifiableCredential", "Extra"}
			if x == 5 {
				c.TopTypes = []string{"Extra", "VerifiableCredential"}
			}
		case x == 3 && c.SubjectDID != "":
			c.SubjectDID = []string{"did:example:123", "did:iden3:polygon:mumbai:x", "did:iden3:readonly:tN4jDinQUdMuJJo6GbVeKPNTPCJ7txyXTWU4T2tJa"}[r.Intn(3)]
		}
		merklize.SetDocumentLoader(c.loader())
		root, err := directRoot(c)
		if err != nil {
			out.Emit(Case{Op: "none", In: J{"doc": string(c.JSON())}, Impl: errJ(err), Prop: &PropRes{OK: false, Why: "generated credential does not merklize: " + err.Error()}, NT: true})
			continue
		}
		vc, err := c.W3C()
		if err != nil {
			panic(err)
		}
		if r.Bool() {
			// a credential that already carries proofs: building the claim must leave them alone (the purity predicate compares
			// the whole credential before and after)
			cp := verifiable.CommonProof{"type": "Ed25519Signature2020", "proofValue": "z" + fmt.Sprint(r.Intn(1000000))}
			vc.Proof = verifiable.CredentialProofs{&cp}
		}
		in := c.modelIn(root)
		tags := []string{fmt.Sprintf("serialized:%v", c.SerAttr != ""), "subjtype:" + c.SubjectTypeAs, fmt.Sprintf("subject:%v", c.SubjectDID != ""), fmt.Sprintf("exp:%v", c.Expiration != nil)}
		// option combinations on fresh objects
		for k := 0; k < 6; k++ {
			o := randOpts(r)
			oj := optsJ(o)
			if o != nil {
				o.MerklizerOpts = []merklize.MerklizeOption{merklize.WithDocumentLoader(c.loader())}
			}
			before, credBefore := optsSnapshot(o), deepJSON(vc)
			cl, err := runToCoreClaim(vc, o, c)
			var why []string
			var impl J
			if err != nil {
				impl = errJ(err)
				if errClass(err) != "err" {
					why = append(why, "ToCoreClaim: "+err.Error())
				}
				// asking for a root position with a serialization attribute, or an unknown position, must be the reason
			} else {
				impl = okJ(claimSlotsJ(cl))
				checkClaimAgainstStatement(c, o, cl, root, in, &why)
			}
			if o == nil {
				// nil options mean the documented defaults, whatever was called before in this process
				d := &verifiable.CoreClaimOptions{SubjectPosition: verifiable.CredentialSubjectPositionIndex, MerklizedRootPosition: verifiable.CredentialMerklizedRootPositionNone}
				cl2, err2 := runToCoreClaim(vc, d, c)
				switch {
				case (err == nil) != (err2 == nil):
					why = append(why, fmt.Sprintf("ToCoreClaim(nil) and ToCoreClaim(explicit defaults) differ: %v vs %v (nil options depend on earlier calls)", err, err2))
				case err == nil && !reflect.DeepEqual(claimSlotsJ(cl), claimSlotsJ(cl2)):
					why = append(why, "ToCoreClaim(nil) builds another claim than ToCoreClaim(explicit defaults)")
				}
			}
			if optsSnapshot(o) != before {
				why = append(why, fmt.Sprintf("ToCoreClaim modified the caller's options: %s -> %s", before, optsSnapshot(o)))
			}
			if deepJSON(vc) != credBefore {
				why = append(why, "ToCoreClaim modified the credential")
			}
			ci := J{}
			for k2, v := range in {
				ci[k2] = v
			}
			ci["opts"] = oj
			out.Emit(Case{Op: "claim.build", In: ci, Impl: impl, Prop: propOf(why), Tags: append(append([]string{}, tags...), fmt.Sprintf("nilopts:%v", o == nil)), NT: true})
		}
		// histories: calls sharing options objects (and the credential) between calls
		genHistory(out, r, c, vc, root, in, tags)
	}
}

func genHistory(out *Out, r *Rng, c *ACred, vc *verifiable.W3CCredential, root *big.Int, in J, tags []string) {
	// a second credential of the other schema kind shares the option objects
	c2 := randCred(r, c.SerAttr == "")
	if c2.TypeURL == c.TypeURL {
		// one loader serves both credentials of a history: their context documents need different URLs
		c2.TypeURL = fmt.Sprintf("https://ctx.example/second-%d.jsonld", r.Intn(1<<30))
	}
	vc2, _ := c2.W3C()
	root2, err := directRoot2(c, c2)
	if err != nil {
		return
	}
	objs := []*verifiable.CoreClaimOptions{randOpts(r), randOpts(r)}
	for i, o := range objs {
		if o == nil {
			objs[i] = &verifiable.CoreClaimOptions{}
		} else if o.MerklizedRootPosition == "Index" {
			o.MerklizedRootPosition = ""
		}
	}
	objs[0].MerklizedRootPosition = "" // the shape of defect D6: the default position, shared between calls
	initial := []verifiable.CoreClaimOptions{*objs[0], *objs[1]}
	ncalls := 2 + r.Intn(5)
	var why []string
	var calls []any
	var results []any
	both := &mapLoader{docs: map[string][]byte{vcCtxURL: []byte(vcCtx), c.TypeURL: c.typeContext(), c2.TypeURL: c2.typeContext()}}
	for _, x := range []*ACred{c, c2} {
		if x.SingleContext {
			both.docs[x.bundleURL()] = x.bundleContext()
		}
	}
	merklize.SetDocumentLoader(both)
	for k := 0; k < ncalls; k++ {
		oi := r.Intn(2)
		useSecond := r.Bool()
		cred, v, cc, rt := in, vc, c, root
		if useSecond {
			cred, v, cc, rt = c2.modelIn(root2), vc2, c2, root2
		}
		o := objs[oi]
		o.MerklizerOpts = []merklize.MerklizeOption{merklize.WithDocumentLoader(both)}
		cl, err := guard(10*time.Second, func() (*core.Claim, error) { return v.ToCoreClaim(context.Background(), o) })
		// the stand-alone result on the *initial* objects
		fresh := initial[oi]
		fresh.MerklizerOpts = []merklize.MerklizeOption{merklize.WithDocumentLoader(both)}
		cl0, err0 := guard(10*time.Second, func() (*core.Claim, error) { return v.ToCoreClaim(context.Background(), &fresh) })
		ci := J{}
		for k2, vv := range cred {
			ci[k2] = vv
		}
		ci["opts"] = optsJ(&initial[oi])
		calls = append(calls, ci)
		if err != nil {
			results = append(results, errJ(err))
		} else {
			results = append(results, okJ(claimSlotsJ(cl)))
			var w2 []string
			checkClaimAgainstStatement(cc, &initial[oi], cl, rt, cred, &w2)
			why = append(why, w2...)
		}
		if (err == nil) != (err0 == nil) {
			why = append(why, fmt.Sprintf("call %d of the history gives %v but the same call on fresh objects gives %v", k, errOrOK(err), errOrOK(err0)))
		} else if err == nil && !reflect.DeepEqual(claimSlotsJ(cl), claimSlotsJ(cl0)) {
			why = append(why, fmt.Sprintf("call %d of the history yields a different claim than the same call on fresh objects", k))
		}
		for j := range objs {
			a, b := *objs[j], initial[j]
			a.MerklizerOpts, b.MerklizerOpts = nil, nil
			if !reflect.DeepEqual(a, b) {
				why = append(why, fmt.Sprintf("options object %d changed during the history: %+v -> %+v", j, b, a))
			}
		}
	}
	out.Emit(Case{Op: "claim.history", In: J{"calls": calls}, Impl: results, Prop: propOf(why), Tags: append(append([]string{}, tags...), "history"), NT: true})
}

func errOrOK(e error) string {
	if e == nil {
		return "a claim"
	}
	return "error (" + e.Error() + ")"
}

func directRoot2(c, c2 *ACred) (*big.Int, error) { return directRoot(c2) }

func init() { gens["C05"] = genC05 }
