package main

import (
	"bytes"
	"context"
	"encoding/json"
	"errors"
	"fmt"
	"math"
	"math/big"
	"reflect"
	"sort"
	"strconv"
	"strings"
	"time"

	core "github.com/iden3/go-iden3-core/v2"
	"github.com/iden3/go-iden3-core/v2/w3c"
	"github.com/iden3/go-schema-processor/v2/merklize"
	"github.com/iden3/go-schema-processor/v2/verifiable"
	"github.com/piprate/json-gold/ld"
)

const vcTypeIRI = "https://www.w3.org/2018/credentials#VerifiableCredential"

func (c *ACred) expandType(name string) string {
	switch name {
	case "VerifiableCredential":
		return vcTypeIRI
	case c.TypeName:
		return c.TypeIRI
	}
	return "urn:ex:other#" + name
}

// abstract model input for the credential
func (c *ACred) modelIn(root *big.Int) J {
	var subjT []any
	switch c.SubjectTypeAs {
	case "string":
		subjT = []any{c.TypeIRI}
	case "array2":
		subjT = []any{c.TypeIRI, c.expandType(c.OtherType)}
	default:
		subjT = []any{}
	}
	var topT []any
	for _, t := range c.TopTypes {
		topT = append(topT, c.expandType(t))
	}
	schemaOf := J{}
	attrOf := J{}
	for _, t := range append(append([]any{}, subjT...), topT...) {
		ts := t.(string)
		schemaOf[ts] = keccakLast16LE(ts).String()
		if ts == c.TypeIRI {
			attrOf[ts] = c.SerAttr
		} else {
			attrOf[ts] = ""
		}
	}
	fields := J{}
	hs := hPoseidon()
	for _, f := range c.Fields {
		if f.Absent {
			continue
		}
		var v *big.Int
		switch f.Kind {
		case "int":
			x, _ := new(big.Int).SetString(f.Canon, 10)
			v, _ = valueHash(hs, x)
		case "bool":
			v, _ = valueHash(hs, f.Canon == "true")
		case "time":
			x, _ := new(big.Int).SetString(f.Canon, 10)
			v = x.Mod(x, hs.Prime)
		default:
			v, _ = valueHash(hs, f.Canon)
		}
		fields[f.Name] = bigS(v)
	}
	in := J{"mzOk": true, "subjectTypes": subjT, "topTypes": topT, "schemaOf": schemaOf, "attrOf": attrOf, "fields": fields, "root": root.String()}
	if c.Expiration != nil {
		in["exp"] = fmt.Sprint(c.Expiration.Unix())
	} else {
		in["exp"] = nil
	}
	if c.SubjectDID == "" {
		in["subject"] = nil
	} else {
		did, err := w3c.ParseDID(c.SubjectDID)
		if err != nil {
			in["subject"] = J{"err": "err"}
		} else if id, err := core.IDFromDID(*did); err != nil {
			in["subject"] = J{"err": "err"}
		} else {
			in["subject"] = J{"ok": leInt(id[:]).String()}
		}
	}
	return in
}

func optsJ(o *verifiable.CoreClaimOptions) any {
	if o == nil {
		return nil
	}
	return J{"nonce": fmt.Sprint(o.RevNonce), "ver": fmt.Sprint(o.Version), "subj": o.SubjectPosition, "root": o.MerklizedRootPosition, "upd": o.Updatable}
}

func claimSlotsJ(cl *core.Claim) []any {
	out := make([]any, 8)
	for i, s := range cl.RawSlotsAsInts() {
		out[i] = s.String()
	}
	return out
}

// the statement, read off literally and checked with an independent decoder
func checkClaimAgainstStatement(c *ACred, o *verifiable.CoreClaimOptions, cl *core.Claim, root *big.Int, in J, why *[]string) {
	s := cl.RawSlotsAsInts()
	two := func(n uint) *big.Int { return new(big.Int).Lsh(big.NewInt(1), n) }
	field := func(x *big.Int, shift, bits uint) *big.Int {
		y := new(big.Int).Rsh(x, shift)
		return y.Mod(y, two(bits))
	}
	eff := verifiable.CoreClaimOptions{SubjectPosition: "index"}
	if o != nil {
		eff = *o
	}
	if field(s[0], 0, 128).Cmp(keccakLast16LE(c.TypeIRI)) != 0 {
		*why = append(*why, "schema hash is not the last 16 bytes of Keccak-256 of the credential-type IRI")
	}
	if field(s[4], 0, 64).Uint64() != eff.RevNonce {
		*why = append(*why, "revocation nonce not as given")
	}
	if uint32(field(s[0], 160, 32).Uint64()) != eff.Version {
		*why = append(*why, "version not as given")
	}
	if (field(s[0], 132, 1).Sign() == 1) != eff.Updatable {
		*why = append(*why, "updatable flag not as given")
	}
	expFlag := field(s[0], 131, 1).Sign() == 1
	if expFlag != (c.Expiration != nil) {
		*why = append(*why, "expiration flag does not say whether an expiration date is present")
	}
	if c.Expiration != nil && field(s[4], 64, 64).Uint64() != uint64(c.Expiration.Unix()) {
		*why = append(*why, "expiration is not the Unix seconds of the expiration date")
	}
	if c.Expiration == nil && field(s[4], 64, 64).Sign() != 0 {
		*why = append(*why, "expiration bytes set without an expiration date")
	}
	subjFlag := field(s[0], 128, 3).Uint64()
	if sj, has := in["subject"].(J); has && sj["ok"] != nil {
		id, _ := new(big.Int).SetString(sj["ok"].(string), 10)
		wantFlag, slot, other := uint64(2), 1, 5
		if eff.SubjectPosition == "value" {
			wantFlag, slot, other = 3, 5, 1
		}
		if subjFlag != wantFlag || s[slot].Cmp(id) != 0 || s[other].Sign() != 0 {
			*why = append(*why, "subject identifier is not in the requested position")
		}
	} else if subjFlag != 0 || s[1].Sign() != 0 || s[5].Sign() != 0 {
		*why = append(*why, "an identifier is present although the subject has no id")
	}
	mrk := field(s[0], 133, 3).Uint64()
	if c.SerAttr == "" {
		wantFlag, slot := uint64(1), 2
		if eff.MerklizedRootPosition == "value" {
			wantFlag, slot = 2, 6
		}
		if mrk != wantFlag || s[slot].Cmp(root) != 0 {
			*why = append(*why, "the document's Merkle root is not in the requested (default: index) position")
		}
		for _, i := range []int{2, 3, 6, 7} {
			if i != slot && s[i].Sign() != 0 {
				*why = append(*why, "a data slot is set for a merklized schema")
			}
		}
	} else {
		if mrk != 0 {
			*why = append(*why, "merklized flag set for a schema with a serialization attribute")
		}
		want := map[string]*big.Int{}
		for _, part := range splitSer(c.SerAttr) {
			fs, has := in["fields"].(J)[part[1]].(string)
			if !has {
				*why = append(*why, fmt.Sprintf("a claim was built although the credential does not set the field %q that the attribute assigns to %s", part[1], part[0]))
				continue
			}
			fv, _ := new(big.Int).SetString(fs, 10)
			want[part[0]] = fv // the last assignment of a slot wins
		}
		for name, i := range map[string]int{"slotIndexA": 2, "slotIndexB": 3, "slotValueA": 6, "slotValueB": 7} {
			w := want[name]
			if w == nil {
				w = big.NewInt(0)
			}
			if s[i].Cmp(w) != 0 {
				*why = append(*why, fmt.Sprintf("raw slot %d does not hold the value encoding of the field designated by %s", i, name))
			}
		}
	}
}

func splitSer(attr string) [][2]string {
	var out [][2]string
	rest := attr[len("iden3:v1:"):]
	for _, p := range bytes.Split([]byte(rest), []byte("&")) {
		kv := bytes.SplitN(p, []byte("="), 2)
		if len(kv) == 2 {
			out = append(out, [2]string{string(kv[0]), string(kv[1])})
		}
	}
	return out
}

func randOpts(r *Rng) *verifiable.CoreClaimOptions {
	if r.Chance(8) {
		return nil
	}
	o := &verifiable.CoreClaimOptions{}
	o.RevNonce = []uint64{0, 1, 1<<64 - 1, r.U64()}[r.Intn(4)]
	o.Version = []uint32{0, 1, 1<<32 - 1, uint32(r.U64())}[r.Intn(4)]
	o.SubjectPosition = []string{"", "index", "value"}[r.Intn(3)]
	o.MerklizedRootPosition = []string{"", "index", "value"}[r.Intn(3)]
	o.Updatable = r.Bool()
	if r.Chance(4) {
		o.SubjectPosition = "elsewhere"
	}
	if r.Chance(4) {
		o.MerklizedRootPosition = "Index"
	}
	return o
}

func directRoot(c *ACred) (*big.Int, error) {
	mz, err := merklize.MerklizeJSONLD(context.Background(), bytes.NewReader(c.JSON()), merklize.WithDocumentLoader(c.loader()))
	if err != nil {
		return nil, err
	}
	return mz.Root().BigInt(), nil
}

func runToCoreClaim(vc *verifiable.W3CCredential, o *verifiable.CoreClaimOptions, c *ACred) (*core.Claim, error) {
	if o != nil {
		o.MerklizerOpts = []merklize.MerklizeOption{merklize.WithDocumentLoader(c.loader())}
	}
	return guard(10*time.Second, func() (*core.Claim, error) {
		cl, err := vc.ToCoreClaim(context.Background(), o)
		if err == nil && cl == nil {
			return nil, errNilNil
		}
		return cl, err
	})
}

func deepJSON(v any) string {
	b, _ := json.Marshal(v)
	return string(b)
}

func optsSnapshot(o *verifiable.CoreClaimOptions) string {
	if o == nil {
		return "nil"
	}
	return fmt.Sprintf("%d|%d|%q|%q|%v|%d", o.RevNonce, o.Version, o.SubjectPosition, o.MerklizedRootPosition, o.Updatable, len(o.MerklizerOpts))
}

func genC05(out *Out, r *Rng, tier string, n int, shard int) {
	// ToCoreClaim(nil) uses the default document loader
	for i := 0; i < n; i++ {
		c := randCred(r, r.Chance(45))
		switch x := r.Intn(20); {
		case x == 0:
			c.SubjectTypeAs, c.OtherType = "array2", "Extra"
		case x == 1:
			c.SubjectTypeAs = "none"
		case x == 2:
			c.SubjectTypeAs, c.TopTypes, c.OtherType = "none", []string{"VerifiableCredential", c.TypeName, "Extra"}, "Extra"
		case x == 4 || x == 5:
			// the subject says what it is; the top-level pair names another type next to VerifiableCredential
			c.SubjectTypeAs, c.OtherType = "string", "Extra"
			c.TopTypes = []string{"VerifiableCredential", "Extra"}
			if x == 5 {
				c.TopTypes = []string{"Extra", "VerifiableCredential"}
			}
		case x == 3 && c.SubjectDID != "":
			c.SubjectDID = []string{"did:example:123", "did:iden3:polygon:mumbai:x", "did:iden3:readonly:tN4jDinQUdMuJJo6GbVeKPNTPCJ7txyXTWU4T2tJa"}[r.Intn(3)]
		}
		merklize.SetDocumentLoader(c.loader())
		root, err := directRoot(c)
		if err != nil {
			out.Emit(Case{Op: "none", In: J{"doc": string(c.JSON())}, Impl: errJ(err), Prop: &PropRes{OK: false, Why: "generated credential does not merklize: " + err.Error()}, NT: true})
			continue
		}
		vc, err := c.W3C()
		if err != nil {
			panic(err)
		}
		if r.Bool() {
			// a credential that already carries proofs: building the claim must leave them alone (the purity predicate compares
			// the whole credential before and after)
			cp := verifiable.CommonProof{"type": "Ed25519Signature2020", "proofValue": "z" + fmt.Sprint(r.Intn(1000000))}
			vc.Proof = verifiable.CredentialProofs{&cp}
		}
		in := c.modelIn(root)
		tags := []string{fmt.Sprintf("serialized:%v", c.SerAttr != ""), "subjtype:" + c.SubjectTypeAs, fmt.Sprintf("subject:%v", c.SubjectDID != ""), fmt.Sprintf("exp:%v", c.Expiration != nil)}
		// option combinations on fresh objects
		for k := 0; k < 6; k++ {
			o := randOpts(r)
			oj := optsJ(o)
			if o != nil {
				o.MerklizerOpts = []merklize.MerklizeOption{merklize.WithDocumentLoader(c.loader())}
			}
			before, credBefore := optsSnapshot(o), deepJSON(vc)
			cl, err := runToCoreClaim(vc, o, c)
			var why []string
			var impl J
			if err != nil {
				impl = errJ(err)
				if errClass(err) != "err" {
					why = append(why, "ToCoreClaim: "+err.Error())
				}
				// asking for a root position with a serialization attribute, or an unknown position, must be the reason
			} else {
				impl = okJ(claimSlotsJ(cl))
				checkClaimAgainstStatement(c, o, cl, root, in, &why)
			}
			if o == nil {
				// nil options mean the documented defaults, whatever was called before in this process
				d := &verifiable.CoreClaimOptions{SubjectPosition: verifiable.CredentialSubjectPositionIndex, MerklizedRootPosition: verifiable.CredentialMerklizedRootPositionNone}
				cl2, err2 := runToCoreClaim(vc, d, c)
				switch {
				case (err == nil) != (err2 == nil):
					why = append(why, fmt.Sprintf("ToCoreClaim(nil) and ToCoreClaim(explicit defaults) differ: %v vs %v (nil options depend on earlier calls)", err, err2))
				case err == nil && !reflect.DeepEqual(claimSlotsJ(cl), claimSlotsJ(cl2)):
					why = append(why, "ToCoreClaim(nil) builds another claim than ToCoreClaim(explicit defaults)")
				}
			}
			if optsSnapshot(o) != before {
				why = append(why, fmt.Sprintf("ToCoreClaim modified the caller's options: %s -> %s", before, optsSnapshot(o)))
			}
			if deepJSON(vc) != credBefore {
				why = append(why, "ToCoreClaim modified the credential")
			}
			ci := J{}
			for k2, v := range in {
				ci[k2] = v
			}
			ci["opts"] = oj
			out.Emit(Case{Op: "claim.build", In: ci, Impl: impl, Prop: propOf(why), Tags: append(append([]string{}, tags...), fmt.Sprintf("nilopts:%v", o == nil)), NT: true})
		}
		// histories: calls sharing options objects (and the credential) between calls
		genHistory(out, r, c, vc, root, in, tags)
		// histories of an issued credential in which some builds break off half way
		genBrokenBuilds(out, r, c, tags)
	}
}

func genHistory(out *Out, r *Rng, c *ACred, vc *verifiable.W3CCredential, root *big.Int, in J, tags []string) {
	// a second credential of the other schema kind shares the option objects
	c2 := randCred(r, c.SerAttr == "")
	if c2.TypeURL == c.TypeURL {
		// one loader serves both credentials of a history: their context documents need different URLs
		c2.TypeURL = fmt.Sprintf("https://ctx.example/second-%d.jsonld", r.Intn(1<<30))
	}
	vc2, _ := c2.W3C()
	root2, err := directRoot2(c, c2)
	if err != nil {
		return
	}
	objs := []*verifiable.CoreClaimOptions{randOpts(r), randOpts(r)}
	for i, o := range objs {
		if o == nil {
			objs[i] = &verifiable.CoreClaimOptions{}
		} else if o.MerklizedRootPosition == "Index" {
			o.MerklizedRootPosition = ""
		}
	}
	objs[0].MerklizedRootPosition = "" // the shape of defect D6: the default position, shared between calls
	initial := []verifiable.CoreClaimOptions{*objs[0], *objs[1]}
	ncalls := 2 + r.Intn(5)
	var why []string
	var calls []any
	var results []any
	both := &mapLoader{docs: map[string][]byte{vcCtxURL: []byte(vcCtx), c.TypeURL: c.typeContext(), c2.TypeURL: c2.typeContext()}}
	for _, x := range []*ACred{c, c2} {
		if x.SingleContext {
			both.docs[x.bundleURL()] = x.bundleContext()
		}
	}
	merklize.SetDocumentLoader(both)
	for k := 0; k < ncalls; k++ {
		oi := r.Intn(2)
		useSecond := r.Bool()
		cred, v, cc, rt := in, vc, c, root
		if useSecond {
			cred, v, cc, rt = c2.modelIn(root2), vc2, c2, root2
		}
		o := objs[oi]
		o.MerklizerOpts = []merklize.MerklizeOption{merklize.WithDocumentLoader(both)}
		cl, err := guard(10*time.Second, func() (*core.Claim, error) { return v.ToCoreClaim(context.Background(), o) })
		// the stand-alone result on the *initial* objects
		fresh := initial[oi]
		fresh.MerklizerOpts = []merklize.MerklizeOption{merklize.WithDocumentLoader(both)}
		cl0, err0 := guard(10*time.Second, func() (*core.Claim, error) { return v.ToCoreClaim(context.Background(), &fresh) })
		ci := J{}
		for k2, vv := range cred {
			ci[k2] = vv
		}
		ci["opts"] = optsJ(&initial[oi])
		calls = append(calls, ci)
		if err != nil {
			results = append(results, errJ(err))
		} else {
			results = append(results, okJ(claimSlotsJ(cl)))
			var w2 []string
			checkClaimAgainstStatement(cc, &initial[oi], cl, rt, cred, &w2)
			why = append(why, w2...)
		}
		if (err == nil) != (err0 == nil) {
			why = append(why, fmt.Sprintf("call %d of the history gives %v but the same call on fresh objects gives %v", k, errOrOK(err), errOrOK(err0)))
		} else if err == nil && !reflect.DeepEqual(claimSlotsJ(cl), claimSlotsJ(cl0)) {
			why = append(why, fmt.Sprintf("call %d of the history yields a different claim than the same call on fresh objects", k))
		}
		for j := range objs {
			a, b := *objs[j], initial[j]
			a.MerklizerOpts, b.MerklizerOpts = nil, nil
			if !reflect.DeepEqual(a, b) {
				why = append(why, fmt.Sprintf("options object %d changed during the history: %+v -> %+v", j, b, a))
			}
		}
	}
	out.Emit(Case{Op: "claim.history", In: J{"calls": calls}, Impl: results, Prop: propOf(why), Tags: append(append([]string{}, tags...), "history"), NT: true})
}

// ---------- builds that break off ----------
//
// "Building a claim does not modify the credential or the options and yields the same claim on every call, whatever was
// built before" - a build that was started and then failed is a build too. An issued credential (one to three proofs of
// the three kinds the library knows) goes through a history of builds; before some of them something is wrong: context
// documents cannot be fetched (some of them, or the origin stops answering after a number of documents), the caller has
// put a value into the subject that cannot be serialized, that is no literal of the field's datatype, that is outside the
// field, or a member no context defines. After every call - failed or not - the credential and the options must be what
// they were before that call, and every call made with the credential as issued must give what the same call gives on
// fresh objects.

// faultLoader: the credential's context documents, served by an origin that can be told to fail
type faultLoader struct {
	inner  *mapLoader
	down   map[string]bool
	budget int // < 0: no limit; otherwise the number of documents served before the origin stops answering
	served int
}

func (l *faultLoader) LoadDocument(u string) (*ld.RemoteDocument, error) {
	if l.down[u] || (l.budget >= 0 && l.served >= l.budget) {
		return nil, ld.NewJsonLdError(ld.LoadingDocumentFailed, errors.New("dial tcp: connection refused: "+u))
	}
	l.served++
	return l.inner.LoadDocument(u)
}

// sanitized: the subject with the values encoding/json cannot write replaced by their names
func sanitized(v any) any {
	switch x := v.(type) {
	case map[string]any:
		if x == nil {
			return x
		}
		o := make(map[string]any, len(x))
		for k, e := range x {
			o[k] = sanitized(e)
		}
		return o
	case []any:
		o := make([]any, len(x))
		for i, e := range x {
			o[i] = sanitized(e)
		}
		return o
	case float64:
		if math.IsNaN(x) || math.IsInf(x, 0) {
			return "float64:" + strconv.FormatFloat(x, 'g', -1, 64)
		}
		return x
	}
	if v != nil {
		switch reflect.ValueOf(v).Kind() {
		case reflect.Chan:
			return "a channel"
		case reflect.Func:
			return "a func"
		}
	}
	return v
}

// credMembers: everything a caller can see of the credential, member by member
func credMembers(vc *verifiable.W3CCredential) map[string]string {
	m := map[string]string{}
	v := reflect.ValueOf(vc).Elem()
	for i := 0; i < v.NumField(); i++ {
		name := v.Type().Field(i).Name
		x := v.Field(i).Interface()
		if name == "CredentialSubject" {
			x = sanitized(vc.CredentialSubject)
		}
		if b, err := json.Marshal(x); err != nil {
			m[name] = "not serializable"
		} else {
			m[name] = string(b)
		}
	}
	// the proofs as the API hands them out
	ps := []string{fmt.Sprintf("nil:%v len:%d", vc.Proof == nil, len(vc.Proof))}
	for _, p := range vc.Proof {
		s := fmt.Sprintf("%T/%s", p, p.ProofType())
		if cl, err := p.GetCoreClaim(); err != nil {
			s += "/no claim"
		} else {
			h, _ := cl.Hex()
			s += "/" + h
		}
		ps = append(ps, s)
	}
	m["Proof (kinds and core claims)"] = strings.Join(ps, ",")
	return m
}

func changedMembers(a, b map[string]string) []string {
	var d []string
	for k, v := range a {
		if b[k] != v {
			d = append(d, k)
		}
	}
	for k := range b {
		if _, has := a[k]; !has {
			d = append(d, k)
		}
	}
	sort.Strings(d)
	return d
}

// subjectFault puts something into the credential's subject that makes the build break off; undo takes it out again
func subjectFault(r *Rng, c *ACred, vc *verifiable.W3CCredential) (kind, what string, undo func()) {
	subj := vc.CredentialSubject
	set := func(m map[string]any, k string, v any) func() {
		old, had := m[k]
		m[k] = v
		return func() {
			if had {
				m[k] = old
			} else {
				delete(m, k)
			}
		}
	}
	var flat []CField // fields the subject sets directly
	for _, f := range c.Fields {
		if _, has := subj[f.Name]; has && !f.Nested && !f.Absent {
			flat = append(flat, f)
		}
	}
	nested, _ := subj["addr"].(map[string]any)
	pick := r.Intn(10)
	switch {
	case pick < 4:
		// a value encoding/json cannot write
		var v any
		var vn string
		switch r.Intn(5) {
		case 0:
			v, vn = math.NaN(), "NaN"
		case 1:
			v, vn = math.Inf(1), "+Inf"
		case 2:
			v, vn = math.Inf(-1), "-Inf"
		case 3:
			v, vn = make(chan int), "a channel"
		default:
			v, vn = func() {}, "a func"
		}
		switch w := r.Intn(5); {
		case w == 0 && len(flat) > 0:
			f := flat[r.Intn(len(flat))]
			return "unserializable", vn + " as the value of " + f.Name, set(subj, f.Name, v)
		case w == 1 && nested != nil:
			k := fmt.Sprintf("extra%d", r.Intn(100))
			return "unserializable", vn + " as addr." + k, set(nested, k, v)
		case w == 2:
			k := fmt.Sprintf("list%d", r.Intn(100))
			l := []any{float64(r.Intn(9)), "x", true}
			l[r.Intn(len(l))] = v
			return "unserializable", vn + " inside the array " + k, set(subj, k, l)
		case w == 3:
			k := fmt.Sprintf("obj%d", r.Intn(100))
			return "unserializable", vn + " inside the object " + k, set(subj, k, map[string]any{"a": float64(r.Intn(9)), "b": v})
		default:
			k := fmt.Sprintf("note%d", r.Intn(100))
			return "unserializable", vn + " as the new member " + k, set(subj, k, v)
		}
	case pick < 7 && len(flat) > 0:
		// no literal of the field's datatype / outside the field
		f := flat[r.Intn(len(flat))]
		var v any
		switch f.DT {
		case "integer", "positiveInteger", "nonNegativeInteger", "long":
			switch r.Intn(3) {
			case 0:
				v = r.Pick([]string{"twelve", "1 2", "0x1f", "--3", ""})
			case 1:
				q := new(big.Int).Add(hPoseidon().Prime, big.NewInt(int64(r.Intn(1000))))
				v = json.Number(q.String())
			default:
				v = map[string]any{"@value": "1.5e", "@type": xsdNS + f.DT}
			}
		case "boolean":
			v = r.Pick([]string{"maybe", "yes", "TRUE ", "2"})
		case "dateTime", "date":
			v = r.Pick([]string{"yesterday", "2023-13-45T99:00:00Z", "12 o'clock", "2023-02-30"})
		case "double", "decimal":
			v = r.Pick([]string{"1e", "one half", "1,5", "--"})
		default:
			v = map[string]any{"@id": "not an iri " + fmt.Sprint(r.Intn(100))}
		}
		return "bad-literal", fmt.Sprintf("%s (xsd:%s) := %s", f.Name, f.DT, deepJSON(v)), set(subj, f.Name, v)
	default:
		// a member no context defines (safe mode refuses it)
		k := fmt.Sprintf("undefinedTerm%d", r.Intn(1000))
		vals := []any{"text", float64(r.Intn(1000)), true, map[string]any{"inner": "x"}, []any{"a", "b"}}
		v := vals[r.Intn(len(vals))]
		if nested != nil && r.Bool() {
			return "undefined-term", "addr." + k + " := " + deepJSON(v), set(nested, k, v)
		}
		return "undefined-term", k + " := " + deepJSON(v), set(subj, k, v)
	}
}

func genBrokenBuilds(out *Out, r *Rng, c *ACred, tags []string) {
	urls := []string{vcCtxURL, c.TypeURL}
	if c.SingleContext {
		urls = []string{c.bundleURL()}
	}
	fl := &faultLoader{inner: c.loader(), down: map[string]bool{}, budget: -1}
	merklize.SetDocumentLoader(fl)
	withLoader := func(o *verifiable.CoreClaimOptions) *verifiable.CoreClaimOptions {
		if o != nil {
			o.MerklizerOpts = []merklize.MerklizeOption{merklize.WithDocumentLoader(fl)}
		}
		return o
	}
	build := func(v *verifiable.W3CCredential, o *verifiable.CoreClaimOptions) (*core.Claim, error) {
		return guard(10*time.Second, func() (*core.Claim, error) {
			cl, err := v.ToCoreClaim(context.Background(), o)
			if err == nil && cl == nil {
				return nil, errNilNil
			}
			return cl, err
		})
	}
	// the options object of the history (nil: the defaults, with the process-wide loader)
	o := randOpts(r)
	if o != nil && r.Chance(75) {
		// mostly positions the library knows, so that the builds of the unharmed credential give claims
		if o.SubjectPosition == "elsewhere" {
			o.SubjectPosition = "value"
		}
		if o.MerklizedRootPosition == "Index" {
			o.MerklizedRootPosition = ""
		}
		if c.SerAttr != "" {
			o.MerklizedRootPosition = ""
		}
	}
	var initial *verifiable.CoreClaimOptions
	if o != nil {
		cp := *o
		initial = &cp
	}
	fresh := func() *verifiable.CoreClaimOptions {
		if initial == nil {
			return nil
		}
		cp := *initial
		return withLoader(&cp)
	}
	// the same call on fresh objects, before anything has happened
	vc0, err := c.W3C()
	if err != nil {
		panic(err)
	}
	cl0, err0 := build(vc0, fresh())

	// the issued credential: one to three proofs, in any order
	vc, _ := c.W3C()
	is := NewIssuer(r, r.Intn(3))
	signed := cl0
	if signed == nil {
		signed, _ = core.NewClaim(core.SchemaHash{byte(r.Intn(256)), 1, 2, 3}, core.WithRevocationNonce(uint64(r.Intn(1000))))
	}
	var proofs verifiable.CredentialProofs
	var proofKinds []any
	np := 1 + r.Intn(3)
	for _, k := range r.Perm(3)[:np] {
		switch k {
		case 0:
			proofs = append(proofs, is.SignBJJ(signed))
			proofKinds = append(proofKinds, "BJJSignature2021")
		case 1:
			p, err := is.IssueSMT(signed)
			if err != nil {
				p = is.ProofSMT(signed)
			}
			proofs = append(proofs, p)
			proofKinds = append(proofKinds, "Iden3SparseMerkleTreeProof")
		default:
			cp := verifiable.CommonProof{"type": "Ed25519Signature2020", "proofValue": "z" + fmt.Sprint(r.Intn(1000000))}
			proofs = append(proofs, &cp)
			proofKinds = append(proofKinds, "Ed25519Signature2020")
		}
	}
	vc.Proof = proofs
	// an identically assembled credential nobody builds a claim from
	pristine, _ := c.W3C()
	pristine.Proof = append(verifiable.CredentialProofs{}, proofs...)

	var why []string
	var steps, results []any
	kinds := map[string]bool{}
	brokeOff := 0
	ncalls := 3 + r.Intn(4)
	firstFault := r.Intn(2) // the first fault comes early: what follows it is what is of interest
	for k := 0; k < ncalls; k++ {
		kind, what := "none", ""
		undo := func() {}
		if x := r.Intn(10); k == firstFault || (k > firstFault && x < 4) {
			switch x % 5 {
			case 0:
				// some of the context documents cannot be fetched
				n := 1 + r.Intn(len(urls))
				var dn []string
				for _, i := range r.Perm(len(urls))[:n] {
					fl.down[urls[i]] = true
					dn = append(dn, urls[i])
				}
				sort.Strings(dn)
				kind, what = "context-unreachable", strings.Join(dn, " ")
				undo = func() { fl.down = map[string]bool{} }
			case 1:
				// the origin stops answering after some documents
				fl.budget, fl.served = r.Intn(3), 0
				kind, what = "origin-stops", fmt.Sprintf("after %d document(s)", fl.budget)
				undo = func() { fl.budget = -1 }
			default:
				kind, what, undo = subjectFault(r, c, vc)
			}
		}
		kinds[kind] = true
		var oc *verifiable.CoreClaimOptions
		if o != nil {
			oc = withLoader(o)
		}
		optsBefore, before := optsSnapshot(oc), credMembers(vc)
		cl, err := build(vc, oc)
		after := credMembers(vc)
		res := "a claim"
		if err != nil {
			res = "an error"
			results = append(results, errJ(err))
			if errClass(err) != "err" {
				why = append(why, fmt.Sprintf("call %d: ToCoreClaim: %s", k, err.Error()))
			}
		} else {
			results = append(results, okJ(claimSlotsJ(cl)))
		}
		if kind != "none" && err != nil {
			brokeOff++
		}
		situation := "with nothing wrong"
		if kind != "none" {
			situation = "with " + kind + " [" + what + "]"
		}
		if d := changedMembers(before, after); len(d) > 0 {
			why = append(why, fmt.Sprintf("ToCoreClaim modified the credential: call %d of the history (%s; it returned %s) changed %s", k, situation, res, strings.Join(d, ", ")))
		}
		if s := optsSnapshot(oc); s != optsBefore {
			why = append(why, fmt.Sprintf("ToCoreClaim modified the caller's options: call %d of the history (%s): %s -> %s", k, situation, optsBefore, s))
		}
		// the same credential and options as in the stand-alone call (a fault of the origin that did not make the build fail
		// changes nothing about the inputs)
		if kind == "none" || ((kind == "context-unreachable" || kind == "origin-stops") && err == nil) {
			if (err == nil) != (err0 == nil) {
				why = append(why, fmt.Sprintf("call %d of the history (%s) gives %s but the same call on fresh objects gives %s", k, situation, errOrOK(err), errOrOK(err0)))
			} else if err == nil && !reflect.DeepEqual(claimSlotsJ(cl), claimSlotsJ(cl0)) {
				why = append(why, fmt.Sprintf("call %d of the history (%s) yields a different claim than the same call on fresh objects", k, situation))
			}
		}
		steps = append(steps, J{"fault": kind, "what": what})
		undo()
	}
	// everything the caller did has been undone
	if len(why) == 0 && !reflect.DeepEqual(vc, pristine) {
		why = append(why, "after the history the credential differs from an identically assembled one that no claim was built from: "+
			strings.Join(changedMembers(credMembers(pristine), credMembers(vc)), ", "))
	}
	if o != nil {
		a, b := *o, *initial
		a.MerklizerOpts, b.MerklizerOpts = nil, nil
		if !reflect.DeepEqual(a, b) {
			why = append(why, fmt.Sprintf("the options object changed during the history: %+v -> %+v", b, a))
		}
	}
	t := append(append([]string{}, tags...), "brokenbuilds", fmt.Sprintf("nilopts:%v", o == nil), fmt.Sprintf("broke-off:%v", brokeOff > 0))
	var ks []string
	for k := range kinds {
		ks = append(ks, "fault:"+k)
	}
	sort.Strings(ks)
	t = append(t, ks...)
	out.Emit(Case{Op: "none", In: J{"doc": string(c.JSON()), "proofs": proofKinds, "opts": optsJ(initial), "steps": steps}, Impl: results, Prop: propOf(why), Tags: t, NT: true})
}

func errOrOK(e error) string {
	if e == nil {
		return "a claim"
	}
	return "error (" + e.Error() + ")"
}

func directRoot2(c, c2 *ACred) (*big.Int, error) { return directRoot(c2) }

func init() { gens["C05"] = genC05 }
