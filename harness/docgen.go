package main

// Abstract documents + abstract schemas and their rendering to concrete JSON-LD (DESIGN 2.4).
// The abstract document is the meaning; the rendering is one presentation of it.

import (
	"bytes"
	"encoding/json"
	"errors"
	"fmt"
	"math"
	"math/big"
	"sort"
	"strconv"
	"strings"
	"time"

	"github.com/piprate/json-gold/ld"
)

const rdfType = "http://www.w3.org/1999/02/22-rdf-syntax-ns#type"
const vocabBase = "urn:ex:v#"

// ---------- ordered JSON ----------

type KV struct {
	K string
	V any
}
type OObj []KV

func writeJSON(b *bytes.Buffer, v any, r *Rng, ws bool) {
	sp := func() {
		if ws && r != nil {
			switch r.Intn(4) {
			case 0:
				b.WriteString(" ")
			case 1:
				b.WriteString("\n  ")
			}
		}
	}
	switch x := v.(type) {
	case OObj:
		b.WriteString("{")
		for i, kv := range x {
			if i > 0 {
				b.WriteString(",")
			}
			sp()
			kb, _ := json.Marshal(kv.K)
			b.Write(kb)
			b.WriteString(":")
			sp()
			writeJSON(b, kv.V, r, ws)
		}
		sp()
		b.WriteString("}")
	case []any:
		b.WriteString("[")
		for i, e := range x {
			if i > 0 {
				b.WriteString(",")
			}
			sp()
			writeJSON(b, e, r, ws)
		}
		b.WriteString("]")
	case RawNum:
		b.WriteString(string(x))
	default:
		var buf bytes.Buffer
		enc := json.NewEncoder(&buf)
		enc.SetEscapeHTML(false)
		_ = enc.Encode(x)
		b.Write(bytes.TrimRight(buf.Bytes(), "\n"))
	}
}

type RawNum string // a JSON number literal spelled exactly so

func shuffleObj(o OObj, r *Rng) OObj {
	p := r.Perm(len(o))
	out := make(OObj, len(o))
	for i, j := range p {
		out[i] = o[j]
	}
	return out
}

// ---------- abstract schema ----------

type Term struct {
	Name   string
	IRI    string
	Kind   string // lit | ref | node | graph
	DT     string // coerced datatype (full IRI) for lit terms; "" = none
	Child  *TypeDef
	Scoped bool // child terms are supplied by a property-scoped context instead of a type
}

type TypeDef struct {
	Name  string
	IRI   string
	Terms []*Term
}

type Schema struct {
	Root   *TypeDef
	Global []*Term // terms defined at top level of the context
	URL    string
	nTypes int
	nTerms int
}

// ---------- abstract document ----------

type ALit struct {
	DT      string // datatype IRI as stored
	Kind    string // int | bool | time | str
	Canon   string // canonical decoded value: decimal / true|false / unix ns / the string
	JSON    any    // one JSON spelling (RawNum, string, bool, OObj value object)
	Alts    []any  // other spellings that give the same RDF lexical form (JSON number spellings etc.)
	LexAlts []any  // spellings with a different lexical form but the same value ("5.0" for "5", another UTC offset, "1" for true)
}

type AVal struct {
	Lit  *ALit
	Ref  string
	Node *ANode
}

type AField struct {
	Term *Term
	Vals []AVal
}

type ANode struct {
	ID     string // "" = blank node
	Type   *TypeDef
	Fields []AField
	Undef  []KV // properties that are not defined by any context (rendered only when the presentation asks for it)
}

type Fact struct {
	Path  []string // expanded property IRIs (indices erased)
	Multi []bool   // Multi[i]: the property at position i has several values in the abstract document
	DT    string
	Kind  string
	Canon string
}

func (f Fact) key() string {
	return strings.Join(f.Path, " ") + "|" + f.DT + "|" + f.Kind + "|" + f.Canon
}

func factsOf(n *ANode, path []string, multi []bool, out *[]Fact) {
	cp := func(p []string, x string) []string { return append(append([]string{}, p...), x) }
	cb := func(p []bool, x bool) []bool { return append(append([]bool{}, p...), x) }
	if n.Type != nil {
		*out = append(*out, Fact{Path: cp(path, rdfType), Multi: cb(multi, false), Kind: "str", Canon: n.Type.IRI})
	}
	for _, f := range n.Fields {
		p := cp(path, f.Term.IRI)
		m := cb(multi, len(f.Vals) > 1)
		for _, v := range f.Vals {
			switch {
			case v.Lit != nil:
				*out = append(*out, Fact{Path: p, Multi: m, DT: v.Lit.DT, Kind: v.Lit.Kind, Canon: v.Lit.Canon})
			case v.Node != nil:
				if v.Node.ID != "" && f.Term.Kind != "graph" {
					*out = append(*out, Fact{Path: p, Multi: m, Kind: "str", Canon: v.Node.ID})
				}
				factsOf(v.Node, p, m, out)
			default:
				*out = append(*out, Fact{Path: p, Multi: m, Kind: "str", Canon: v.Ref})
			}
		}
	}
}

// ---------- generation ----------

type DocGen struct {
	prime        *big.Int // integers are generated inside the ranges of this prime (default: BN254)
	r            *Rng
	sch          *Schema
	nid          int
	issued       map[string]bool
	issuedList   []string
	maxDep       int
	noGraph      bool
	emptyOK      bool // allow empty strings
	multiPct     int  // chance (percent) that a field is multi-valued; 0 = default 35
	nativeInStr  bool // JSON numbers and booleans may appear under string and custom datatypes
	noAliasTerms bool // the context does not define the usual aliases id -> @id and type -> @type (documents then use the keywords)
}

var xsdLitTypes = []string{"integer", "nonNegativeInteger", "positiveInteger", "negativeInteger", "nonPositiveInteger", "boolean", "dateTime", "double", "string", "", "", "custom"}

func (g *DocGen) newTerm(kind string, depth int) *Term {
	g.sch.nTerms++
	t := &Term{Name: fmt.Sprintf("f%d", g.sch.nTerms), Kind: kind}
	if g.r.Chance(8) {
		// term names are any strings: letters of other scripts, hyphens, underscores (no dots: those separate path segments)
		t.Name = fmt.Sprintf(g.r.Pick([]string{"f%dé", "п%d", "名%d", "f%d-x", "f%d_x", "F%d", "f%d~"}), g.sch.nTerms)
	}
	t.IRI = vocabBase + t.Name
	if g.r.Chance(20) {
		t.IRI = "https://example.com/vocab/" + t.Name
	}
	if g.r.Chance(12) {
		// identifiers are compared as the strings they are: no case folding, no percent-decoding, no removal of dot segments
		t.IRI = fmt.Sprintf(g.r.Pick([]string{"https://example.com/vocab/%s%%20x", "https://example.com/vocab/caf%%C3%%A9/%s", "https://EXAMPLE.com/Vocab/%s",
			"https://example.com/vocab/é/%s", "https://example.com/vocab?ns=1#%s", "https://example.com/vocab/%s/", "https://example.com/a/../vocab/%s",
			"https://example.com/vocab/%s%%2Fy", "https://example.com:443/vocab/%s", "HTTPS://example.com/vocab/%s"}), t.Name)
	}
	switch kind {
	case "lit":
		dt := g.r.Pick(xsdLitTypes)
		switch dt {
		case "":
		case "custom":
			t.DT = "urn:ex:types#custom"
			if g.r.Chance(60) {
				// the other datatypes of XML Schema (and friends): the library knows nothing special about them - "any other
				// type as the hash of the string", whatever the string looks like
				t.DT = g.r.Pick([]string{xsdNS + "int", xsdNS + "long", xsdNS + "short", xsdNS + "byte", xsdNS + "unsignedInt", xsdNS + "unsignedLong", xsdNS + "unsignedShort",
					xsdNS + "decimal", xsdNS + "float", xsdNS + "date", xsdNS + "time", xsdNS + "anyURI", xsdNS + "gYear", xsdNS + "duration", xsdNS + "base64Binary", xsdNS + "token",
					"http://www.w3.org/1999/02/22-rdf-syntax-ns#HTML", "https://schema.org/Date", xsdNS + "Integer", xsdNS + "datetime"})
			}
		default:
			t.DT = xsdNS + dt
		}
	case "node", "graph":
		t.Child = g.newType(depth + 1)
		t.Scoped = kind == "node" && g.r.Chance(35)
	}
	return t
}

func (g *DocGen) newType(depth int) *TypeDef {
	g.sch.nTypes++
	td := &TypeDef{Name: fmt.Sprintf("T%d", g.sch.nTypes)}
	td.IRI = "urn:ex:types#" + td.Name
	n := 1 + g.r.Intn(4)
	for i := 0; i < n; i++ {
		kind := "lit"
		x := g.r.Intn(100)
		switch {
		case x < 55:
		case x < 70:
			kind = "ref"
		case x < 95 && depth < g.maxDep:
			kind = "node"
		case depth == 0 && !g.noGraph && depth < g.maxDep:
			kind = "graph"
		}
		td.Terms = append(td.Terms, g.newTerm(kind, depth))
	}
	return td
}

func (g *DocGen) iri(prefix string) string {
	g.nid++
	if g.issued == nil {
		g.issued = map[string]bool{}
	}
	// identifiers that continue one another (items/1, items/12, items/1#a): their order as strings is not their order in
	// the canonical N-Quads (where '>' closes the shorter one)
	if len(g.issuedList) > 0 && g.r.Chance(20) {
		base := g.issuedList[g.r.Intn(len(g.issuedList))]
		id := base + g.r.Pick([]string{"2", "0", "/x", "#a", ":b", "-c", ".d", "a", "~", "%20", "=", "?q", "@z"})
		if !g.issued[id] {
			g.issued[id] = true
			g.issuedList = append(g.issuedList, id)
			return id
		}
	}
	id := fmt.Sprintf("urn:ex:%s:%d-%d", prefix, g.nid, g.r.Intn(1000))
	g.issued[id] = true
	g.issuedList = append(g.issuedList, id)
	return id
}

func (g *DocGen) litFor(dt string) *ALit {
	r := g.r
	local := strings.TrimPrefix(dt, xsdNS)
	switch {
	case dt == "":
		// untyped: native JSON decides
		switch r.Intn(4) {
		case 0:
			b := r.Bool()
			return &ALit{DT: xsdNS + "boolean", Kind: "bool", Canon: strconv.FormatBool(b), JSON: b}
		case 1:
			v := int64(r.Intn(2000000)) - 1000000
			if g.prime != nil && g.prime.BitLen() < 40 {
				v = int64(r.Intn(100)) - 50
			}
			return &ALit{DT: xsdNS + "integer", Kind: "int", Canon: strconv.FormatInt(v, 10), JSON: RawNum(strconv.FormatInt(v, 10)),
				Alts: []any{RawNum(strconv.FormatInt(v, 10) + ".0"), RawNum(strconv.FormatInt(v, 10) + "e0")}}
		case 2:
			if (g.prime == nil || g.prime.BitLen() > 80) && r.Chance(25) {
				return g.bigWhole("", false)
			}
			f := float64(2*r.Intn(50000)+1) / 8
			c := ld.GetCanonicalDouble(f)
			return &ALit{DT: xsdNS + "double", Kind: "str", Canon: c, JSON: RawNum(strconv.FormatFloat(f, 'f', -1, 64)),
				Alts: []any{RawNum(strconv.FormatFloat(f, 'e', -1, 64))}}
		default:
			s := g.str()
			return &ALit{DT: xsdNS + "string", Kind: "str", Canon: s, JSON: s}
		}
	case strings.HasPrefix(dt, xsdNS) && (local == "integer" || local == "nonNegativeInteger" || local == "positiveInteger" || local == "negativeInteger" || local == "nonPositiveInteger"):
		pr := g.prime
		if pr == nil {
			pr = hPoseidon().Prime
		}
		lo, hi := stmtRange(local, pr)
		var v *big.Int
		if pr.BitLen() < 40 {
			v = r.BigBelow(new(big.Int).Add(new(big.Int).Sub(hi, lo), big.NewInt(1)))
			v.Add(v, lo)
		} else {
			switch r.Intn(7) {
			case 6:
				// around the ends of the 64-bit machine words (as strings: all digits count)
				v = new(big.Int).Lsh(big.NewInt(1), uint(62+r.Intn(3)))
				v.Add(v, big.NewInt(int64(r.Intn(5))-2))
				if r.Chance(30) {
					v = new(big.Int).SetUint64(r.U64() | 1<<63)
				}
				if hi.Sign() <= 0 || (lo.Sign() < 0 && r.Bool()) {
					v.Neg(v)
				}
				if v.Cmp(lo) < 0 || v.Cmp(hi) > 0 {
					v = new(big.Int).Set(hi)
				}
			case 5:
				if pr.BitLen() > 80 {
					return g.bigWhole(dt, hi.Sign() <= 0)
				}
				v = big.NewInt(int64(r.Intn(7)))
				if hi.Sign() <= 0 {
					v.Neg(v)
				}
				if v.Cmp(lo) < 0 || v.Cmp(hi) > 0 {
					v = new(big.Int).Set(hi)
				}
			case 0:
				v = new(big.Int).Set(lo)
			case 1:
				v = new(big.Int).Set(hi)
			case 2:
				v = r.BigBelow(new(big.Int).Add(new(big.Int).Sub(hi, lo), big.NewInt(1)))
				v.Add(v, lo)
			default:
				span := int64(1000)
				v = big.NewInt(int64(r.Intn(int(span))))
				if local == "negativeInteger" || local == "nonPositiveInteger" || (local == "integer" && r.Bool()) {
					v.Neg(v)
				}
				if local == "positiveInteger" {
					v.Add(v, big.NewInt(1))
				}
				if local == "negativeInteger" {
					v.Sub(v, big.NewInt(1))
				}
			}
		}
		s := v.String()
		l := &ALit{DT: dt, Kind: "int", Canon: s, JSON: s, LexAlts: []any{s + ".0", s + "e0", s + ".000E+0"}}
		if v.Sign() >= 0 {
			l.LexAlts = append(l.LexAlts, "0"+s, "00"+s, "+"+s, "+0"+s)
		} else {
			l.LexAlts = append(l.LexAlts, "-0"+s[1:], "-00"+s[1:])
		}
		if z := len(s) - len(strings.TrimRight(s, "0")); z > 0 && v.Sign() != 0 {
			l.LexAlts = append(l.LexAlts, fmt.Sprintf("%se%d", s[:len(s)-z], z), fmt.Sprintf("%sE+%d", s[:len(s)-z], z))
		}
		if v.IsInt64() && v.Int64() > -(1<<53) && v.Int64() < (1<<53) {
			l.Alts = append(l.Alts, RawNum(s), RawNum(s+".0"), RawNum(s+"e0"))
			if r.Bool() {
				l.JSON = RawNum(s)
			}
		}
		return l
	case local == "boolean":
		b := r.Bool()
		l := &ALit{DT: dt, Kind: "bool", Canon: strconv.FormatBool(b), JSON: b, Alts: []any{strconv.FormatBool(b)}}
		if b {
			l.LexAlts = append(l.LexAlts, "1", RawNum("1"))
		} else {
			l.LexAlts = append(l.LexAlts, "0", RawNum("0"))
		}
		return l
	case local == "dateTime":
		y := 1900 + r.Intn(250)
		if r.Chance(10) {
			y = r.Intn(10000)
		}
		t := time.Date(y, time.Month(1+r.Intn(12)), 1+r.Intn(28), r.Intn(24), r.Intn(60), r.Intn(60), 0, time.UTC)
		if r.Chance(40) {
			t = t.Add(time.Duration(r.Intn(1000000000)))
		}
		ns := new(big.Int).Mul(big.NewInt(t.Unix()), big.NewInt(1_000_000_000))
		ns.Add(ns, big.NewInt(int64(t.Nanosecond())))
		l := &ALit{DT: dt, Kind: "time", Canon: ns.String(), JSON: t.Format(time.RFC3339Nano)}
		if r.Chance(12) {
			// the same instant written with an unusual but legal offset
			off := []int{-1, 1, -1439, 1439, 840, -720, 59, -61}[r.Intn(8)]
			if tz := t.In(time.FixedZone("", off*60)); tz.Year() >= 1 && tz.Year() <= 9999 {
				l.JSON = tz.Format(time.RFC3339Nano)
			}
		}
		for _, off := range []int{330, -480, 60} {
			tz := t.In(time.FixedZone("", off*60))
			if tz.Year() >= 0 && tz.Year() <= 9999 {
				l.LexAlts = append(l.LexAlts, tz.Format(time.RFC3339Nano))
			}
		}
		if t.Hour() == 0 && t.Minute() == 0 && t.Second() == 0 && t.Nanosecond() == 0 {
			l.LexAlts = append(l.LexAlts, t.Format("2006-01-02"))
		}
		return l
	case local == "double":
		f := float64(int64(r.Intn(1000000))-500000) / 64
		if r.Chance(15) {
			f = float64(int64(r.Intn(2000)) - 1000) // whole doubles: "42" must still mean 4.2E1
		}
		c := ld.GetCanonicalDouble(f)
		s := strconv.FormatFloat(f, 'f', -1, 64)
		e := strconv.FormatFloat(f, 'e', -1, 64)
		l := &ALit{DT: dt, Kind: "str", Canon: c, JSON: RawNum(s), Alts: []any{RawNum(e)}, LexAlts: []any{s, e, c}}
		if r.Chance(30) {
			// a numeric string: the dataset keeps the text as written, the value is its canonical form
			l.JSON = r.Pick([]string{s, e, c})
			l.Alts = nil
		}
		return l
	default:
		if g.nativeInStr && r.Chance(15) {
			// a JSON number or boolean under a non-numeric datatype: the dataset holds its JSON-LD spelling
			switch r.Intn(4) {
			case 0:
				v := int64(r.Intn(2000)) - 1000
				c := strconv.FormatInt(v, 10)
				return &ALit{DT: dt, Kind: "str", Canon: c, JSON: RawNum(c), Alts: []any{RawNum(c + ".0"), RawNum(c + "e0")}}
			case 1:
				f := float64(2*r.Intn(50000)+1) / 8
				return &ALit{DT: dt, Kind: "str", Canon: ld.GetCanonicalDouble(f), JSON: RawNum(strconv.FormatFloat(f, 'f', -1, 64)),
					Alts: []any{RawNum(strconv.FormatFloat(f, 'e', -1, 64))}}
			case 2:
				b := r.Bool()
				return &ALit{DT: dt, Kind: "str", Canon: strconv.FormatBool(b), JSON: b}
			default:
				l := g.bigWhole("", false)
				return &ALit{DT: dt, Kind: "str", Canon: l.Canon, JSON: l.JSON, Alts: l.Alts}
			}
		}
		s := g.str()
		if strings.HasPrefix(dt, xsdNS) && r.Chance(65) {
			// values that look like what the datatype suggests
			s = r.Pick([]string{"0", "1", "-1", "42", "127", "255", "-128", "32767", "65535", "2147483647", "-2147483648", "4294967295", "9223372036854775807", "18446744073709551615",
				"3.14", "1234567890123456.78", "0.12345678901234567890", "99999999999999999999.5", "1e3", "2024-02-29", "12:30:00", "P1D", "2024", "true", "aGVsbG8=", "http://example.com/x", " 7 ", "007", "+5", "1.0"})
		}
		return &ALit{DT: dt, Kind: "str", Canon: s, JSON: s}
	}
}

// bigWhole: a whole JSON number between 2^53 and 2^69. Below 2^63 the RDF conversion spells all its digits; from 2^63 on
// (where the int64 test for "whole" fails) it spells the 16-digit canonical double. dt == "" means untyped (native).
func (g *DocGen) bigWhole(dt string, negative bool) *ALit {
	r := g.r
	m := (uint64(1) << 52) | (r.U64() >> 12)
	f := math.Ldexp(float64(m), 1+r.Intn(16))
	if r.Chance(20) {
		f = []float64{1e19, 1e20, math.Ldexp(1, 63), math.Ldexp(1, 64), math.Ldexp(1, 62), 1e17, 123456789012345680000}[r.Intn(7)]
	}
	if negative || (dt == "" || dt == xsdNS+"integer") && r.Bool() {
		f = -f
	}
	js := strconv.FormatFloat(f, 'f', -1, 64)
	alts := []any{RawNum(strconv.FormatFloat(f, 'e', -1, 64)), RawNum(fmt.Sprintf("%.0f", f)), RawNum(fmt.Sprintf("%.1f", f))}
	if f == float64(int64(f)) {
		c := strconv.FormatInt(int64(f), 10)
		d := dt
		if d == "" {
			d = xsdNS + "integer"
		}
		return &ALit{DT: d, Kind: "int", Canon: c, JSON: RawNum(js), Alts: alts}
	}
	cd := ld.GetCanonicalDouble(f)
	if dt == "" {
		return &ALit{DT: xsdNS + "double", Kind: "str", Canon: cd, JSON: RawNum(js), Alts: alts}
	}
	bf, _, _ := big.ParseFloat(cd, 10, 2000, big.ToNearestEven)
	x, _ := bf.Int(nil)
	return &ALit{DT: dt, Kind: "int", Canon: x.String(), JSON: RawNum(js), Alts: alts}
}

var words = []string{"alpha", "beta", "γάμμα", "delta 4", "e", "x y z", "1", "true", "2020-01-01", "\"q\"", "tab\there", "ünï", "long-" + strings.Repeat("abcdefghij", 7)}

func (g *DocGen) str() string {
	if g.emptyOK && g.r.Chance(6) {
		return ""
	}
	s := g.r.Pick(words) + strconv.Itoa(g.r.Intn(1000))
	if g.r.Chance(8) {
		// significant white space around a value
		s = g.r.Pick([]string{" ", "  ", "\t", "\n", ""}) + s + g.r.Pick([]string{" ", "\n", "\t ", ""})
	}
	return s
}

func (g *DocGen) node(td *TypeDef, depth int, forceID bool) *ANode {
	n := &ANode{Type: td}
	if forceID || g.r.Chance(40) {
		n.ID = g.iri("n")
	}
	for ti, t := range td.Terms {
		if g.r.Chance(15) && len(td.Terms) > 1 && !(ti == len(td.Terms)-1 && len(n.Fields) == 0) {
			continue // optional field absent (but never all of them: a node without any statement is not a tree-shaped document's node)
		}
		f := AField{Term: t}
		cnt := 1
		mp := g.multiPct
		if mp == 0 {
			mp = 35
		}
		if g.r.Chance(mp) {
			cnt = 2 + g.r.Intn(3)
		}
		seen := map[string]bool{}
		for i := 0; i < cnt; i++ {
			switch t.Kind {
			case "lit":
				l := g.litFor(t.DT)
				if seen[l.DT+"|"+l.Canon] {
					continue
				}
				seen[l.DT+"|"+l.Canon] = true
				f.Vals = append(f.Vals, AVal{Lit: l})
			case "ref":
				f.Vals = append(f.Vals, AVal{Ref: g.iri("ref")})
			case "node", "graph":
				f.Vals = append(f.Vals, AVal{Node: g.node(t.Child, depth+1, false)})
			}
		}
		if len(f.Vals) > 0 {
			n.Fields = append(n.Fields, f)
		}
	}
	return n
}

func NewDocGen(r *Rng, maxDep int) *DocGen {
	g := &DocGen{r: r, maxDep: maxDep}
	g.sch = &Schema{URL: fmt.Sprintf("https://ctx.example/%d.jsonld", r.Intn(1<<30))}
	g.sch.Root = g.newType(0)
	return g
}

// ---------- rendering ----------

type Presentation struct {
	r               *Rng
	shuffle         bool
	ws              bool
	altSpell        bool
	ctxMode         int // 0 inline, 1 by URL, 2 [URL] array
	aliases         bool
	labelBN         bool
	singleArr       bool
	bn              int
	prefix          string
	lexAlt          int  // 0 never; 1 only on single-valued properties; 2 anywhere
	usedArrayLexAlt bool // a lexical respelling was used inside a multi-valued property (or inside a member of one)
	usedLexAlt      bool // a lexical respelling was used anywhere
	lexNumOnly      bool // respell numbers only (integers and doubles), not booleans or instants
	underMulti      int
	withUndef       bool
}

func (g *DocGen) termDef(t *Term, p *Presentation) any {
	id := any(t.IRI)
	if strings.HasPrefix(t.IRI, vocabBase) {
		id = "ex:" + strings.TrimPrefix(t.IRI, vocabBase)
	}
	def := OObj{{"@id", id}}
	switch t.Kind {
	case "lit":
		if t.DT == "" {
			return id
		}
		dt := t.DT
		if strings.HasPrefix(dt, xsdNS) {
			dt = "xsd:" + strings.TrimPrefix(dt, xsdNS)
		}
		def = append(def, KV{"@type", dt})
	case "ref":
		def = append(def, KV{"@type", "@id"})
	case "graph":
		def = append(def, KV{"@container", "@graph"})
	case "node":
		if t.Scoped {
			def = append(def, KV{"@context", g.typeCtx(t.Child, p)})
		}
	}
	return def
}

func (g *DocGen) typeCtx(td *TypeDef, p *Presentation) OObj {
	c := OObj{}
	for _, t := range td.Terms {
		c = append(c, KV{t.Name, g.termDef(t, p)})
	}
	return c
}

func (g *DocGen) allTypes(td *TypeDef, out *[]*TypeDef) {
	*out = append(*out, td)
	for _, t := range td.Terms {
		if t.Child != nil {
			g.allTypes(t.Child, out)
		}
	}
}

// the context document: every type is a top-level term with a type-scoped context
func (g *DocGen) contextObj(p *Presentation) OObj {
	c := OObj{{"@version", RawNum("1.1")}, {"ex", vocabBase}, {"xsd", xsdNS}}
	if !g.noAliasTerms {
		c = append(c, KV{"id", "@id"}, KV{"type", "@type"})
	}
	var tds []*TypeDef
	g.allTypes(g.sch.Root, &tds)
	for _, td := range tds {
		c = append(c, KV{td.Name, OObj{{"@id", td.IRI}, {"@context", g.typeCtx(td, p)}}})
	}
	return c
}

func (g *DocGen) renderVal(v AVal, t *Term, p *Presentation, multi bool) any {
	multi = multi || p.underMulti > 0
	switch {
	case v.Lit != nil:
		j := v.Lit.JSON
		if p.altSpell && len(v.Lit.Alts) > 0 && p.r.Chance(60) {
			j = v.Lit.Alts[p.r.Intn(len(v.Lit.Alts))]
		}
		numeric := v.Lit.Kind == "int" || v.Lit.DT == xsdNS+"double"
		if len(v.Lit.LexAlts) > 0 && (p.lexAlt == 2 || (p.lexAlt == 1 && !multi)) && (numeric || !p.lexNumOnly) && p.r.Chance(50) {
			j = v.Lit.LexAlts[p.r.Intn(len(v.Lit.LexAlts))]
			p.usedLexAlt = true
			if multi {
				p.usedArrayLexAlt = true
			}
		}
		return j
	case v.Node != nil:
		if multi {
			p.underMulti++
			defer func() { p.underMulti-- }()
		}
		return g.renderNode(v.Node, p)
	default:
		return v.Ref
	}
}

func (g *DocGen) renderNode(n *ANode, p *Presentation) OObj {
	o := OObj{}
	idk, tyk := "@id", "@type"
	if p.aliases && !g.noAliasTerms {
		idk, tyk = "id", "type"
	}
	if n.ID != "" {
		o = append(o, KV{idk, n.ID})
	} else if p.labelBN {
		p.bn++
		o = append(o, KV{idk, fmt.Sprintf("_:%s%d", p.prefix, p.bn)})
	}
	if n.Type != nil {
		o = append(o, KV{tyk, n.Type.Name})
	}
	for _, f := range n.Fields {
		vals := make([]any, 0, len(f.Vals))
		idx := p.r.Perm(len(f.Vals))
		if !p.shuffle {
			sort.Ints(idx)
		}
		for _, i := range idx {
			vals = append(vals, g.renderVal(f.Vals[i], f.Term, p, len(f.Vals) > 1))
		}
		var v any = vals
		if len(vals) == 1 && !(p.singleArr && p.r.Bool()) {
			v = vals[0]
		}
		o = append(o, KV{f.Term.Name, v})
	}
	if p.withUndef {
		for _, kv := range n.Undef {
			o = append(o, kv)
		}
	}
	if p.shuffle {
		o = shuffleObj(o, p.r)
	}
	return o
}

// Render gives one JSON-LD presentation of the abstract document.
// RenderBroken renders the document with one typed literal (integer, boolean or dateTime) replaced by an ill-formed
// value: a document that fails inside the entry loop, after other entries may have been produced. nil when there is none.
func (g *DocGen) RenderBroken(root *ANode, p *Presentation) []byte {
	var lits []*ALit
	var walk func(n *ANode)
	walk = func(n *ANode) {
		for _, f := range n.Fields {
			for i := range f.Vals {
				if l := f.Vals[i].Lit; l != nil && (l.Kind == "int" || l.Kind == "bool" || l.Kind == "time") && strings.HasPrefix(l.DT, xsdNS) {
					lits = append(lits, l)
				}
				if f.Vals[i].Node != nil {
					walk(f.Vals[i].Node)
				}
			}
		}
	}
	walk(root)
	if len(lits) == 0 {
		return nil
	}
	l := lits[g.r.Intn(len(lits))]
	old := *l
	l.JSON, l.Alts, l.LexAlts = g.r.Pick([]string{"twelve", "not-a-value", "2022-13-45", "1.5.2", "yes"}), nil, nil
	doc := g.Render(root, p)
	*l = old
	return doc
}

func (g *DocGen) Render(root *ANode, p *Presentation) []byte {
	o := g.renderNode(root, p)
	var ctx any
	switch p.ctxMode {
	case 0:
		ctx = g.contextObj(p)
	case 1:
		ctx = g.sch.URL
	default:
		ctx = []any{g.sch.URL}
	}
	o = append(OObj{{"@context", ctx}}, o...)
	if p.shuffle {
		o = shuffleObj(o, p.r)
	}
	var b bytes.Buffer
	writeJSON(&b, o, p.r, p.ws)
	return b.Bytes()
}

// ContextDoc is the document served for the schema URL.
func (g *DocGen) ContextDoc() []byte {
	var b bytes.Buffer
	writeJSON(&b, OObj{{"@context", g.contextObj(&Presentation{r: g.r})}}, nil, false)
	return b.Bytes()
}

func plainPresentation(r *Rng) *Presentation {
	return &Presentation{r: r, ctxMode: 1, aliases: true}
}

func randomPresentation(r *Rng) *Presentation {
	return &Presentation{r: r, shuffle: true, ws: r.Bool(), altSpell: true, ctxMode: r.Intn(3), aliases: r.Bool(), labelBN: r.Bool(),
		singleArr: true, prefix: r.Pick([]string{"b", "x", "node", "z9"}), lexAlt: 1}
}

// ---------- loader ----------

type mapLoader struct{ docs map[string][]byte }

func (m *mapLoader) LoadDocument(u string) (*ld.RemoteDocument, error) {
	b, ok := m.docs[u]
	if !ok {
		return nil, ld.NewJsonLdError(ld.LoadingDocumentFailed, errors.New("no such document: "+u))
	}
	var d any
	if err := json.Unmarshal(b, &d); err != nil {
		return nil, err
	}
	return &ld.RemoteDocument{DocumentURL: u, Document: d}, nil
}

// ---------- datasets as JSON for the model ----------

func nodeJ(n ld.Node) any {
	switch x := n.(type) {
	case *ld.IRI:
		return J{"t": "iri", "v": x.Value}
	case *ld.BlankNode:
		return J{"t": "blank", "v": x.Attribute}
	case *ld.Literal:
		return J{"t": "lit", "v": x.Value, "dt": x.Datatype, "lang": x.Language}
	}
	return nil
}

func datasetJ(ds *ld.RDFDataset) ([]any, J) {
	names := make([]string, 0, len(ds.Graphs))
	for n := range ds.Graphs {
		names = append(names, n)
	}
	sort.Strings(names)
	canon := J{}
	out := []any{}
	for _, n := range names {
		var qs []any
		for _, q := range ds.Graphs[n] {
			pj := ""
			if p, ok := q.Predicate.(*ld.IRI); ok {
				pj = p.Value
			}
			var g any
			if q.Graph != nil {
				g = nodeJ(q.Graph)
			}
			qs = append(qs, J{"s": nodeJ(q.Subject), "p": pj, "o": nodeJ(q.Object), "g": g})
			if l, ok := q.Object.(*ld.Literal); ok && l.Datatype == xsdNS+"double" {
				canon[l.Value] = canonOf(l.Value)
			}
		}
		if qs == nil {
			qs = []any{}
		}
		out = append(out, J{"name": n, "quads": qs})
	}
	return out, canon
}
