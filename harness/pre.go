package main

import (
	"math/big"
)

// preflight: the Lean ports of the hashers must agree with the Go ones
func genPRE(out *Out, r *Rng, tier string, n int, shard int) {
	for _, hs := range append(allHashers(), hSmall(3), hSmall(5), hSmall(7)) {
		for i := 0; i < n/8+4; i++ {
			k := 1 + r.Intn(6)
			if i%9 == 0 {
				k = 1 + r.Intn(16)
			}
			xs := make([]*big.Int, k)
			xj := make([]any, k)
			for j := range xs {
				xs[j] = r.BigBelow(hs.Prime)
				if r.Chance(10) {
					xs[j] = big.NewInt(int64(r.Intn(3)))
				}
				xj[j] = xs[j].String()
			}
			h, err := hs.H.Hash(xs)
			var impl J
			if err != nil || h == nil {
				impl = J{"err": "err"}
			} else {
				impl = okJ(h.String())
			}
			out.Emit(Case{Op: "pre.hash", In: J{"h": hs.JSON, "xs": xj}, Impl: impl, NT: true})
			ln := r.Intn(70)
			if i%7 == 0 {
				ln = 31*16 - 2 + r.Intn(40)
			}
			if i%11 == 0 {
				ln = 0
			}
			msg := make([]byte, ln)
			for j := range msg {
				msg[j] = byte(r.U64())
			}
			hb, err := hs.H.HashBytes(msg)
			if err != nil || hb == nil {
				impl = J{"err": "err"}
			} else {
				impl = okJ(hb.String())
			}
			out.Emit(Case{Op: "pre.hashbytes", In: J{"h": hs.JSON, "hex": hexS(msg)}, Impl: impl, NT: true})
		}
	}
}

func init() { gens["PRE"] = genPRE }
