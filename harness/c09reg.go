package main

import (
	"context"
	"encoding/json"
	"errors"
	"fmt"
	"math/big"
	"net/http"
	"strings"
	"time"

	"github.com/iden3/go-schema-processor/v2/verifiable"
)

// registry histories against the model (Lean: Gsp.Resolve.run, theorem Props.C09.resolver_is_last_registered):
// registrations, deletions and look-ups on a verifier's own CredentialStatusResolverRegistry and on the process-wide default one,
// over status types chosen to resemble one another. A resolver is a stub that answers with its number; a look-up is
// ValidateCredentialStatus with or without the registry option (and Get / GetStatusResolver), which must ask exactly the resolver the
// model names, or fail when the model says "not registered".

type numberedResolver struct{ n int }

type askedErr struct{ n int }

func (e askedErr) Error() string { return fmt.Sprintf("asked:%d", e.n) }

func (s numberedResolver) Resolve(_ context.Context, _ verifiable.CredentialStatus) (verifiable.RevocationStatus, error) {
	return verifiable.RevocationStatus{}, askedErr{s.n}
}

// regTypeFamily: type names that a too coarse (or too fine) key would confuse
func regTypeFamily(r *Rng, tag string) []string {
	base := r.Pick([]string{"SparseMerkleTreeProof", "Iden3commRevocationStatusV1.0", "Iden3OnchainSparseMerkleTreeProof2023", "StatusList2021Entry", "VerifRegType"})
	voc1 := "https://" + r.Pick([]string{"schema.iden3.io/core/jsonld/iden3proofs.jsonld", "status.example.org/vocab/v1", "a.example/v"}) + "#"
	voc2 := "https://" + r.Pick([]string{"b.example/ns", "status.example.org/vocab/v2", "A.example/v"}) + r.Pick([]string{"#", "/"})
	fam := []string{
		tag + base, voc1 + tag + base, voc2 + tag + base,
		strings.ToLower(tag + base), strings.ToUpper(tag + base),
		tag + base + " ", " " + tag + base, tag + base + "2", (tag + base)[:len(tag+base)-1],
		tag + "Other" + fmt.Sprint(r.Intn(3)), "",
	}
	k := 2 + r.Intn(len(fam)-1)
	p := r.Perm(len(fam))
	outp := make([]string, 0, k)
	for _, i := range p[:k] {
		outp = append(outp, fam[i])
	}
	return outp
}

func emitRegistryHistory(out *Out, r *Rng) {
	// types of this history carry a tag of their own, so that the entries it leaves in (and removes from) the process-wide
	// default registry cannot meet those of any other case
	tag := fmt.Sprintf("H%x_", r.U64()&0xffffff)
	types := regTypeFamily(r, tag)
	own := &verifiable.CredentialStatusResolverRegistry{}
	var ops []J
	var impl []any
	var why []string
	nOps := 4 + r.Intn(14)
	next := 1
	usedDefault := map[string]bool{}
	defaultRegMu.Lock()
	defer defaultRegMu.Unlock()
	for i := 0; i < nOps; i++ {
		t := types[r.Intn(len(types))]
		isOwn := r.Chance(60)
		switch k := r.Intn(10); {
		case k < 4:
			res := next
			next++
			if isOwn {
				own.Register(verifiable.CredentialStatusType(t), numberedResolver{res})
			} else if r.Bool() {
				verifiable.RegisterStatusResolver(verifiable.CredentialStatusType(t), numberedResolver{res})
				usedDefault[t] = true
			} else {
				verifiable.DefaultCredentialStatusResolverRegistry.Register(verifiable.CredentialStatusType(t), numberedResolver{res})
				usedDefault[t] = true
			}
			ops = append(ops, J{"o": "register", "own": isOwn, "t": t, "res": res})
		case k < 6:
			if isOwn {
				own.Delete(verifiable.CredentialStatusType(t))
			} else {
				verifiable.DeleteStatusResolver(verifiable.CredentialStatusType(t))
			}
			ops = append(ops, J{"o": "delete", "own": isOwn, "t": t})
		default:
			ops = append(ops, J{"o": "resolve", "own": isOwn, "t": t})
			// (a) the registry's own look-up
			var got verifiable.CredentialStatusResolver
			var gerr error
			if isOwn {
				got, gerr = own.Get(verifiable.CredentialStatusType(t))
			} else {
				got, gerr = verifiable.GetStatusResolver(verifiable.CredentialStatusType(t))
			}
			viaGet := any("err")
			if gerr == nil {
				if nr, ok := got.(numberedResolver); ok {
					viaGet = nr.n
				} else {
					viaGet = fmt.Sprintf("foreign resolver %T", got)
				}
			}
			// (b) the validation entry point, with or without the option
			st := verifiable.CredentialStatus{ID: "urn:status:" + t, Type: verifiable.CredentialStatusType(t), RevocationNonce: uint64(i)}
			var verr error
			if isOwn {
				_, verr = verifiable.ValidateCredentialStatus(context.Background(), st, verifiable.WithValidationStatusResolverRegistry(own))
			} else {
				_, verr = verifiable.ValidateCredentialStatus(context.Background(), st)
			}
			viaValidate := any("err")
			var ae askedErr
			if verr == nil {
				viaValidate = "accepted without an answer"
			} else if errors.As(verr, &ae) {
				viaValidate = ae.n
			}
			if fmt.Sprint(viaGet) != fmt.Sprint(viaValidate) {
				why = append(why, fmt.Sprintf("step %d: Get(%q) names resolver %v, validation of a status of that type asked %v (own registry: %v)", i, t, viaGet, viaValidate, isOwn))
			}
			impl = append(impl, viaValidate)
		}
	}
	// leave the default registry as it was found
	for t := range usedDefault {
		verifiable.DeleteStatusResolver(verifiable.CredentialStatusType(t))
	}
	if impl == nil {
		impl = []any{}
	}
	out.Emit(Case{Op: "registry.run", In: J{"ops": ops}, Impl: J{"ok": impl}, Prop: propOf(why), Tags: []string{"registry-history", fmt.Sprintf("types:%d", len(types))}, NT: len(impl) > 0})
}

// the whole way of a status through the built-in resolver: the issuer's answer travels as JSON over (scripted) HTTP, is decoded by
// IssuerResolver and judged by ValidateCredentialStatus - honest answers, and answers in which a root (or the state) is present but is
// no hash, with the state recomputed as if that root - or that root and every later one - were absent. A root that is present and
// unusable is not a missing root: the model (Hex.bad) says error, and so must the code.
func emitStatusOverHTTP(out *Out, r *Rng, is *Issuer, revoked map[uint64]bool) {
	var q uint64
	members := make([]uint64, 0, len(revoked))
	for k := range revoked {
		members = append(members, k)
	}
	sortU64(members)
	if len(members) > 0 && r.Bool() {
		q = members[r.Intn(len(members))]
	} else {
		q = r.U64() >> uint(r.Intn(60))
	}
	rs := is.RevStatus(q)
	zero := big.NewInt(0)
	ctr, rtr, ror := is.claims.Root().BigInt(), is.revs.Root().BigInt(), is.roots.Root().BigInt()
	fault := "none"
	switch k := r.Intn(8); k {
	case 0, 1:
	case 2:
		fault = "unusable-state"
		s := unusableRoot(r)
		rs.Issuer.State = &s
	default:
		which := r.Intn(3)
		later := r.Bool()
		s := unusableRoot(r)
		c, v, o := ctr, rtr, ror
		switch which {
		case 0:
			rs.Issuer.ClaimsTreeRoot = &s
			c = zero
			if later {
				v, o = zero, zero
			}
		case 1:
			rs.Issuer.RevocationTreeRoot = &s
			v = zero
			if later {
				o = zero
			}
		default:
			rs.Issuer.RootOfRoots = &s
			o = zero
		}
		fault = fmt.Sprintf("unusable-root-%d-state-as-if-absent(later:%v)", which, later)
		if r.Chance(85) {
			rs.Issuer.State = stateOf(c, v, o)
		}
	}
	body, err := json.Marshal(rs)
	if err != nil {
		return
	}
	old := http.DefaultTransport
	http.DefaultTransport = &scriptedTransport{code: 200, body: body}
	reg := &verifiable.CredentialStatusResolverRegistry{}
	reg.Register(verifiable.SparseMerkleTreeProof, verifiable.IssuerResolver{})
	_, verr := guard(10*time.Second, func() (int, error) {
		_, e := verifiable.ValidateCredentialStatus(context.Background(), verifiable.CredentialStatus{ID: "http://status.example/check", Type: verifiable.SparseMerkleTreeProof, RevocationNonce: q},
			verifiable.WithValidationStatusResolverRegistry(reg))
		return 0, e
	})
	http.DefaultTransport = old
	impl := classify(verr)
	var why []string
	if fault == "none" {
		if revoked[q] && impl["err"] != "revoked" {
			why = append(why, fmt.Sprintf("over HTTP: nonce %d is in the revocation tree but the result is %v", q, impl))
		}
		if !revoked[q] && verr != nil {
			why = append(why, fmt.Sprintf("over HTTP: nonce %d is absent from the revocation tree but validation fails: %v", q, verr))
		}
	} else if verr == nil || impl["err"] == "revoked" {
		why = append(why, fmt.Sprintf("over HTTP: the answer %s carries a root or state that is present but is no hash (%s), and validation says %v instead of an error", trunc(string(body), 300), fault, impl))
	}
	if errClass(verr) == "panic" || errClass(verr) == "hang" {
		why = append(why, verr.Error())
	}
	out.Emit(Case{Op: "verify.status", In: J{"answer": statusAnswerJ(rs, nil), "nonce": fmt.Sprint(q), "fault": fault, "via": "http"}, Impl: impl, Prop: propOf(why),
		Tags: []string{"over-http", "fault:" + strings.SplitN(fault, "(", 2)[0], fmt.Sprintf("member:%v", revoked[q])}, NT: true})
}

func sortU64(a []uint64) {
	for i := 1; i < len(a); i++ {
		for j := i; j > 0 && a[j] < a[j-1]; j-- {
			a[j], a[j-1] = a[j-1], a[j]
		}
	}
}
