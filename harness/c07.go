package main

// C07, registry scenes: "the validated status shows it not revoked" - validated through the sources of revocation information
// the verifier chose (the registry handed to VerifyProof, or the package-wide one when none is handed over), whatever else
// the process holds. The status entry next to the auth claim is not covered by the signature: whoever assembles the proof
// chooses its type and id.
//
// A scene = one issuer history (key valid, then possibly revoked and the new state published) x a history of Register /
// Delete operations on the verifier's registry x a history of operations on the package-wide registry (other components of
// the same process: resolvers replaying the issuer's old state, the library's own "fetch the URL in the entry" resolver in
// front of such a server, failing ones, truthful ones) x the status entry of the bundle (type from a pool, id, entry form)
// x the state the proof names (the one the key was valid in, or the latest).
// (The generator of the single-fault bundles lives in verify.go; this file holds the predicate-only scenes.)

import (
	"bytes"
	"context"
	"encoding/json"
	"errors"
	"fmt"
	"io"
	"math/big"
	"net/http"
	"sort"
	"strings"

	"github.com/iden3/go-iden3-core/v2/w3c"
	"github.com/iden3/go-merkletree-sql/v2"
	"github.com/iden3/go-schema-processor/v2/merklize"
	"github.com/iden3/go-schema-processor/v2/verifiable"
)

// kinds of status resolver
const (
	rkTruthful  = "truthful"   // answers from the issuer's current trees
	rkError     = "error"      // unavailable
	rkStale     = "stale"      // replays the (self-consistent) answer of the state in which the key was still valid
	rkStaleHTTP = "stale-http" // verifiable.IssuerResolver in front of a server that replays that answer
)

type regOp struct {
	del  bool
	typ  verifiable.CredentialStatusType
	kind string
}

func (o regOp) String() string {
	if o.del {
		return "delete(" + string(o.typ) + ")"
	}
	return "register(" + string(o.typ) + "," + o.kind + ")"
}

type regScene struct {
	is       *Issuer
	stale    verifiable.RevocationStatus
	answered []string // "<registry>/<kind>" of every resolver that handed out an answer during the verification
	asked    []string
}

func (sc *regScene) resolver(where, kind string) verifiable.CredentialStatusResolver {
	name := where + "/" + kind
	switch kind {
	case rkStaleHTTP:
		return verifiable.IssuerResolver{}
	case rkError:
		return statusResolver{func(st verifiable.CredentialStatus) (verifiable.RevocationStatus, error) {
			sc.asked = append(sc.asked, name)
			return verifiable.RevocationStatus{}, errors.New("status source unavailable")
		}}
	case rkStale:
		return statusResolver{func(st verifiable.CredentialStatus) (verifiable.RevocationStatus, error) {
			sc.asked = append(sc.asked, name)
			sc.answered = append(sc.answered, name)
			return sc.stale, nil
		}}
	}
	return statusResolver{func(st verifiable.CredentialStatus) (verifiable.RevocationStatus, error) {
		sc.asked = append(sc.asked, name)
		sc.answered = append(sc.answered, name)
		return sc.is.RevStatus(st.RevocationNonce), nil
	}}
}

// the server behind rkStaleHTTP: whatever URL is asked, the old answer
type staleOrigin struct {
	sc   *regScene
	body []byte
}

func (o *staleOrigin) RoundTrip(req *http.Request) (*http.Response, error) {
	o.sc.asked = append(o.sc.asked, "default/"+rkStaleHTTP)
	o.sc.answered = append(o.sc.answered, "default/"+rkStaleHTTP)
	return &http.Response{StatusCode: 200, Status: "200", Body: io.NopCloser(bytes.NewReader(o.body)), Header: http.Header{"Content-Type": {"application/json"}},
		ContentLength: int64(len(o.body)), Request: req, Proto: "HTTP/1.1", ProtoMajor: 1, ProtoMinor: 1}, nil
}

func statusTypePool(r *Rng) []verifiable.CredentialStatusType {
	pool := []verifiable.CredentialStatusType{verifiable.SparseMerkleTreeProof, verifiable.Iden3ReverseSparseMerkleTreeProof,
		verifiable.Iden3commRevocationStatusV1, verifiable.Iden3OnchainSparseMerkleTreeProof2023}
	for i := 0; i < 1+r.Intn(2); i++ {
		pool = append(pool, verifiable.CredentialStatusType(fmt.Sprintf("VerifStatusType%c%d", 'A'+rune(i), r.Intn(50))))
	}
	return pool
}

// a history of 0-5 operations over the pool, then (mostly) one that settles whether typ is present at the end;
// content = what a registry holds after it, by the harness's own bookkeeping
func regHistory(r *Rng, pool []verifiable.CredentialStatusType, typ verifiable.CredentialStatusType, kinds []string, present int) ([]regOp, map[verifiable.CredentialStatusType]string) {
	var ops []regOp
	content := map[verifiable.CredentialStatusType]string{}
	do := func(o regOp) {
		ops = append(ops, o)
		if o.del {
			delete(content, o.typ)
		} else {
			content[o.typ] = o.kind
		}
	}
	for i := r.Intn(6); i > 0; i-- {
		t := pool[r.Intn(len(pool))]
		if r.Chance(25) {
			do(regOp{del: true, typ: t})
		} else {
			do(regOp{typ: t, kind: kinds[r.Intn(len(kinds))]})
		}
	}
	_, has := content[typ]
	switch x := r.Intn(100); {
	case x < present && !has:
		do(regOp{typ: typ, kind: kinds[r.Intn(len(kinds))]})
	case x >= present && x < 90 && has:
		do(regOp{del: true, typ: typ})
	}
	return ops, content
}

func opsJ(ops []regOp) []string {
	out := []string{}
	for _, o := range ops {
		out = append(out, o.String())
	}
	return out
}

func contentJ(m map[verifiable.CredentialStatusType]string) []string {
	out := []string{}
	for t, k := range m {
		out = append(out, string(t)+"="+k)
	}
	sort.Strings(out)
	return out
}

// emitRegistryScenes: one issuer, a few verifications while its key is valid, then (mostly) the key is revoked and a few more
func emitRegistryScenes(out *Out, r *Rng, later bool) {
	var s *verifySetup
	for try := 0; ; try++ {
		s = newVerifySetup(r, later, 1+r.Intn(12))
		// (nonces that do not survive the float64 reading of the status entry are known finding F8 and have their own cases)
		if !jsonLossyNonce(s.is.authNonce) || try > 20 {
			break
		}
	}
	ctx := context.Background()
	is := s.is
	sc := &regScene{is: is, stale: is.RevStatus(is.authNonce)}
	staleBody, _ := json.Marshal(sc.stale)
	p0 := is.SignBJJ(s.claim) // names the state in which the key is valid
	h0, _ := merkletree.NewHashFromHex(*p0.IssuerData.State.Value)
	res := resolverCfg{mode: "unpublished", perState: map[string]string{}, errDoc: r.Intn(3)}
	if s.later || r.Chance(30) {
		res.perState[h0.Hex()] = "published"
	}
	var p1 *verifiable.BJJSignatureProof2021
	revoked := false
	nBefore, nAfter := 1+r.Intn(2), 0
	willRevoke := r.Chance(80)
	if willRevoke {
		nAfter = 2 + r.Intn(3)
	}
	for k := 0; k < nBefore+nAfter; k++ {
		if k == nBefore {
			// the key leaks: the issuer revokes the auth claim (next to some other revocations) and publishes the new state
			for i := r.Intn(3); i > 0; i-- {
				_ = is.revs.Add(ctx, new(big.Int).SetUint64(r.U64()>>uint(r.Intn(60))), big.NewInt(0))
			}
			if err := is.revs.Add(ctx, new(big.Int).SetUint64(is.authNonce), big.NewInt(0)); err != nil {
				return // (the nonce collides with a revoked neighbour in the 40-level tree: no such history)
			}
			for i := r.Intn(2); i > 0; i-- {
				_ = is.revs.Add(ctx, new(big.Int).SetUint64(r.U64()>>uint(r.Intn(60))), big.NewInt(0))
			}
			_ = is.roots.Add(ctx, is.claims.Root().BigInt(), big.NewInt(0))
			revoked = true
			p1 = is.SignBJJ(s.claim)
			h1, _ := merkletree.NewHashFromHex(*p1.IssuerData.State.Value)
			res.perState[h1.Hex()] = "published"
		}
		emitRegistryScene(out, r, s, sc, staleBody, res, p0, p1, revoked)
	}
}

func emitRegistryScene(out *Out, r *Rng, s *verifySetup, sc *regScene, staleBody []byte, res resolverCfg, p0, p1 *verifiable.BJJSignatureProof2021, revoked bool) {
	is := s.is
	sc.asked, sc.answered = nil, nil
	pool := statusTypePool(r)
	typ := pool[r.Intn(len(pool))]
	// ----- the verifier's registry: resolvers it trusts (truthful, at times unavailable); none handed over in a fifth of the scenes
	handed := !r.Chance(20)
	var reg *verifiable.CredentialStatusResolverRegistry
	var regOps, defOps []regOp
	var regHas, defHas map[verifiable.CredentialStatusType]string
	if handed {
		reg = &verifiable.CredentialStatusResolverRegistry{}
		regOps, regHas = regHistory(r, pool, typ, []string{rkTruthful, rkTruthful, rkTruthful, rkError}, 45)
		for _, o := range regOps {
			if o.del {
				reg.Delete(o.typ)
			} else {
				reg.Register(o.typ, sc.resolver("handed", o.kind))
			}
		}
		// the rest of the process: anything
		defOps, defHas = regHistory(r, pool, typ, []string{rkStale, rkStale, rkStaleHTTP, rkStaleHTTP, rkTruthful, rkError}, 65)
	} else {
		// the package-wide registry is the verifier's choice
		defOps, defHas = regHistory(r, pool, typ, []string{rkTruthful, rkTruthful, rkTruthful, rkError}, 60)
	}
	defer func() {
		for _, t := range pool {
			verifiable.DeleteStatusResolver(t)
		}
	}()
	for _, o := range defOps {
		switch {
		case o.del && r.Bool():
			verifiable.DeleteStatusResolver(o.typ)
		case o.del:
			verifiable.DefaultCredentialStatusResolverRegistry.Delete(o.typ)
		case r.Bool():
			verifiable.RegisterStatusResolver(o.typ, sc.resolver("default", o.kind))
		default:
			verifiable.DefaultCredentialStatusResolverRegistry.Register(o.typ, sc.resolver("default", o.kind))
		}
	}
	oldT := http.DefaultTransport
	http.DefaultTransport = &staleOrigin{sc: sc, body: staleBody}
	defer func() { http.DefaultTransport = oldT }()

	// ----- the bundle
	p := *p0
	named := "valid-key-state"
	if p1 != nil && r.Bool() {
		p, named = *p1, "latest-state"
	}
	id := fmt.Sprintf("https://status-%d.example/v1/%s/claims/revocation/status/%d", r.Intn(1000), strings.ReplaceAll(is.did.String(), ":", "%3A"), is.authNonce)
	form := r.Intn(3)
	switch form {
	case 0:
		p.IssuerData.CredentialStatus = map[string]any{"id": id, "type": string(typ), "revocationNonce": is.authNonce}
	case 1:
		p.IssuerData.CredentialStatus = verifiable.CredentialStatus{ID: id, Type: typ, RevocationNonce: is.authNonce}
	default:
		p.IssuerData.CredentialStatus = &verifiable.CredentialStatus{ID: id, Type: typ, RevocationNonce: is.authNonce}
	}
	vc := *s.vc
	vc.Proof = verifiable.CredentialProofs{&p}
	viaJSON := r.Chance(35)
	in := J{"scene": "status-registries", "revoked": revoked, "later": s.later, "proofNames": named, "statusType": string(typ), "statusId": id, "entryForm": form,
		"authNonce": fmt.Sprint(is.authNonce), "registryHandedOver": handed, "handedOps": opsJ(regOps), "handedHolds": contentJ(regHas),
		"packageWideOps": opsJ(defOps), "packageWideHolds": contentJ(defHas), "viaJSON": viaJSON, "resolved": res.J(p.IssuerData.State.Value)}
	eff, effName := defHas, "the package-wide registry (none handed over)"
	if handed {
		eff, effName = regHas, "the registry handed to VerifyProof"
	}
	effKind, effPresent := eff[typ]
	tags := []string{"registry-scene", fmt.Sprintf("revoked:%v", revoked), fmt.Sprintf("handed:%v", handed), fmt.Sprintf("type-known-to-verifier:%v", effPresent)}
	if handed {
		if k, ok := defHas[typ]; ok {
			tags = append(tags, "package-wide-holds-type:"+k)
		} else {
			tags = append(tags, "package-wide-holds-type:no")
		}
	}
	c := Case{Op: "none", In: in, Tags: tags, NT: true}
	setCurrent(out, &c)
	var why []string
	if viaJSON {
		// handed over as JSON, as a holder receives it
		enc, err := json.Marshal(&vc)
		var vc2 verifiable.W3CCredential
		if err == nil {
			err = json.Unmarshal(enc, &vc2)
		}
		if err != nil {
			why = append(why, "credential does not survive encode/decode: "+err.Error())
		} else {
			vc = vc2
		}
	}
	calls := 0
	err := runVerify(&vc, verifiable.BJJSignatureProofType, res.resolver(&calls), reg, s.c.loader())
	c.Impl = classify(err)
	in["asked"], in["answered"] = fmt.Sprint(sc.asked), fmt.Sprint(sc.answered)
	accepted := err == nil
	holds := "has no resolver for that type"
	if effPresent {
		holds = "holds a " + effKind + " resolver for that type"
	}
	switch {
	case accepted && revoked:
		why = append(why, fmt.Sprintf("a credential signed with a revoked auth key was accepted: auth claim nonce %d is in the issuer's revocation tree (latest, published state), "+
			"the status entry is of type %q and %s %s; answers came from %v (package-wide registry of the process: %v)", is.authNonce, typ, effName, holds, sc.answered, contentJ(defHas)))
	case accepted && len(sc.answered) == 0:
		why = append(why, fmt.Sprintf("verification succeeded although no status was obtained for the auth claim (status type %q; %s %s)", typ, effName, holds))
	case !accepted && !revoked && effKind == rkTruthful:
		why = append(why, fmt.Sprintf("a properly issued and signed credential was rejected: the auth claim is not revoked, %s holds a truthful resolver for the status type %q "+
			"(package-wide registry of the process: %v): %v", effName, typ, contentJ(defHas), err))
	case revoked && effKind == rkTruthful && c.Impl.(J)["err"] != "revoked":
		why = append(why, fmt.Sprintf("a revoked auth claim must give the distinguished 'revoked' error (%s holds a truthful resolver for %q), got %v", effName, typ, err))
	}
	if errClass(err) == "panic" || errClass(err) == "hang" {
		why = append(why, "verifier "+errClass(err)+": "+err.Error())
	}
	c.Prop = propOf(why)
	setCurrent(nil, nil)
	out.Emit(c)
}

// a document the issuer never signed: the credential is changed after issuance (one bound statement), its proof list holds F - a proof
// that carries the *changed* document's own claim under the genuine signature of the original claim, so it is bound but not signed -
// and G, the issuer's genuine proof of the original credential, which is signed but not bound. No order of the two makes the signature
// a signature over this document's claim: verification of the signature proof must fail (predicate only; the same lists, as lists,
// are C06's model-compared cases).
func emitForgedDocumentLists(out *Out, r *Rng) {
	s := newVerifySetup(r, false, 0)
	muts := credMutations()
	for try := 0; try < 6; try++ {
		m := muts[r.Intn(len(muts))]
		if m.name == "none" || m.name == "unbound-credential-id" || (m.merklOnly && s.c.SerAttr != "") {
			continue
		}
		c2 := cloneCred(s.c)
		if !m.apply(c2, r) {
			continue
		}
		merklize.SetDocumentLoader(c2.loader())
		fresh, err := c2.W3C()
		if err != nil {
			continue
		}
		cl2, e := runToCoreClaim(fresh, optsFromClaim(s.claim), c2)
		if e != nil {
			continue
		}
		h1, _ := cl2.Hex()
		h0, _ := s.claim.Hex()
		if h1 == h0 {
			continue // the change does not reach the claim (nothing to forge)
		}
		g := s.is.SignBJJ(s.claim)
		f := s.is.SignBJJ(cl2)
		f.Signature = g.Signature
		reg := &verifiable.CredentialStatusResolverRegistry{}
		reg.Register(verifiable.SparseMerkleTreeProof, statusResolver{func(st verifiable.CredentialStatus) (verifiable.RevocationStatus, error) {
			return s.is.RevStatus(st.RevocationNonce), nil
		}})
		var why []string
		orders := []string{"FG", "GF", "FGG", "GFG", "F", "G"}
		for _, ord := range orders {
			v, _ := c2.W3C()
			for _, ch := range ord {
				if ch == 'F' {
					v.Proof = append(v.Proof, f)
				} else {
					v.Proof = append(v.Proof, g)
				}
			}
			k := 0
			verr := runVerify(v, verifiable.BJJSignatureProofType, resolverCfg{mode: "unpublished"}.resolver(&k), reg, c2.loader())
			if verr == nil {
				why = append(why, fmt.Sprintf("a document the issuer never signed (%s changed after issuance) passes signature-proof verification with the proof list %s: no proof in it is a valid signature over this document's claim", m.name, ord))
			}
			if errClass(verr) == "panic" || errClass(verr) == "hang" {
				why = append(why, verr.Error())
			}
		}
		out.Emit(Case{Op: "none", In: J{"forged": m.name, "orders": orders}, Impl: J{}, Prop: propOf(why), Tags: []string{"forged-document-list", "mut:" + m.name}, NT: true})
		merklize.SetDocumentLoader(s.c.loader())
		return
	}
	merklize.SetDocumentLoader(s.c.loader())
}

// the DID resolver's whole document, for the signature proof as for the inclusion proof (c08.go, emitSMTDocShapes): the state entry
// among verification methods of other types, each with a `published` member of its own. A properly issued and signed credential is
// accepted exactly when the state entry says published or the state is the genesis state of the issuer's DID (predicate only).
func emitBJJDocShapes(out *Out, r *Rng) {
	later := r.Chance(70)
	s := newVerifySetup(r, later, r.Intn(6))
	if s.revoked {
		return
	}
	p := s.is.SignBJJ(s.claim)
	st := p.IssuerData.State
	if st.Value == nil {
		return
	}
	if n, ok := nonceThroughJSON(s.is.authClaim.GetRevocationNonce()); !ok || n != s.is.authClaim.GetRevocationNonce() {
		return // known finding F8 has its own cases
	}
	stHash, err := merkletree.NewHashFromHex(*st.Value)
	if err != nil {
		return
	}
	gen := genesisOracle(p.IssuerData.ID, st.Value)
	isGen, _ := gen.(J)["ok"].(bool)
	infos := []string{"published", "unpublished", "nil", "published"}
	if !isGen {
		infos = append(infos, "absent")
	}
	reg := &verifiable.CredentialStatusResolverRegistry{}
	for _, t := range []verifiable.CredentialStatusType{verifiable.SparseMerkleTreeProof, verifiable.Iden3ReverseSparseMerkleTreeProof, verifiable.Iden3commRevocationStatusV1, verifiable.Iden3OnchainSparseMerkleTreeProof2023} {
		reg.Register(t, statusResolver{func(cs verifiable.CredentialStatus) (verifiable.RevocationStatus, error) {
			return s.is.RevStatus(cs.RevocationNonce), nil
		}})
	}
	for _, info := range infos {
		sh := randSMTDocShape(r, p.IssuerData.ID, stHash.Hex(), info)
		s.vc.Proof = verifiable.CredentialProofs{p}
		res := didResolver{f: func(did *w3c.DID) (verifiable.DIDDocument, error) {
			d := sh.doc
			d.VerificationMethod = append([]verifiable.CommonVerificationMethod{}, sh.doc.VerificationMethod...)
			return d, nil
		}}
		verr := runVerify(s.vc, verifiable.BJJSignatureProofType, res, reg, s.c.loader())
		want := info != "absent" && (info == "published" || isGen)
		var why []string
		if want && verr != nil {
			why = append(why, fmt.Sprintf("a properly issued and signed credential is rejected although the state is published or genesis (%v); DID document: %s", verr, sh))
		}
		if !want && verr == nil {
			why = append(why, fmt.Sprintf("signature proof accepted although the state is not the genesis state and the resolver's state entry does not report it published; DID document: %s", sh))
		}
		if errClass(verr) == "panic" || errClass(verr) == "hang" {
			why = append(why, verr.Error())
		}
		// the bundle as numbers and oracle bits, with the document's verification methods as they stand: the model picks the state
		// entry (Gsp.Resolve.stateInfo; Props.C07.bjj_verdict_ignores_other_methods)
		vmsJ := make([]any, len(sh.types))
		for i := range sh.types {
			vmsJ[i] = J{"tp": sh.types[i], "published": sh.published[i]}
		}
		auth := *s.is.authClaim
		ahi, ahv, _ := auth.HiHv()
		nonce := auth.GetRevocationNonce()
		in := J{"didDocument": J{"info": info, "pos": sh.pos, "types": sh.types, "published": sh.published},
			"authClaimOk": true, "sigOk": sigOracle(p.Signature, s.claim, &auth), "authHi": ahi.String(), "authHv": ahv.String(), "authNonce": fmt.Sprint(nonce),
			"issuer":  J{"didOk": didParses(p.IssuerData.ID), "state": treeStateJ(st.Value, st.ClaimsTreeRoot, st.RevocationTreeRoot, st.RootOfRoots)},
			"authMtp": proofJSON(p.IssuerData.MTP), "resolved": J{"vms": vmsJ}, "genesis": gen,
			"statusNonce": J{"ok": fmt.Sprint(nonce)}, "statusAnswer": statusAnswerJ(s.is.RevStatus(nonce), nil)}
		out.Emit(Case{Op: "verify.bjj", In: in, Impl: classify(verr), Prop: propOf(why),
			Tags: []string{"did-document", "info:" + info, fmt.Sprintf("genesis:%v", isGen)}, NT: true})
	}
}
