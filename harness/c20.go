package main

import (
	"bytes"
	"context"
	"errors"
	"fmt"
	"math/big"
	"net/http"
	"strings"
	"sync"
	"time"

	core "github.com/iden3/go-iden3-core/v2"
	"github.com/iden3/go-merkletree-sql/v2"
	"github.com/iden3/go-schema-processor/v2/loaders"
	"github.com/iden3/go-schema-processor/v2/merklize"
	"github.com/iden3/go-schema-processor/v2/verifiable"
)

// C20: randomized mixes of merklize / proof / hash / load on 2-64 goroutines sharing one loader, one cache and one
// merklizer; built with -race. Every goroutine's result must equal the sequential oracle computed beforehand.
func emitMix(out *Out, r *Rng, goroutines, rounds int) {
	ctx := context.Background()
	// documents and their context, served by the scripted origin through the shared loader
	g := NewDocGen(r, 2)
	g.noGraph = true
	root := g.node(g.sch.Root, 0, true)
	pres := plainPresentation(r)
	pres.ctxMode = 1 // context by URL: every merklization goes through the shared loader
	doc := g.Render(root, pres)
	o := &scriptedOrigin{docs: map[string]*orgEntry{}}
	warm := "https://ctx.example/warm.jsonld"
	expiring := "https://ctx.example/expiring.jsonld"
	nostore := "https://ctx.example/nostore.jsonld"
	embedded := "https://ctx.example/embedded.jsonld"
	stale := "https://ctx.example/stale.jsonld" // storable, but its lifetime is over at once: every read finds an expired entry
	cfg := loaderCfg{cacheMode: []string{"memory", "virtual", "virtual"}[r.Intn(3)], embedded: map[string]int{embedded: 1234}}
	o.docs[warm] = &orgEntry{ver: 11, policy: "max-age=3600"}
	o.docs[expiring] = &orgEntry{ver: 22, policy: "max-age=3"}
	o.docs[nostore] = &orgEntry{ver: 33, policy: "no-store"}
	o.docs[stale] = &orgEntry{ver: 44, policy: "max-age=0"}
	// pages that are no JSON documents and name one with an alternate link: never stored / stored / found expired at once
	pageA, pageB, pageC := "https://ctx.example/pageA", "https://pages.example/pageB", "https://pages.example/pageC"
	o.docs[pageA] = &orgEntry{alt: nostore, policy: "no-store"}
	o.docs[pageB] = &orgEntry{alt: warm, policy: "max-age=3600"}
	o.docs[pageC] = &orgEntry{alt: pageA, policy: "max-age=0"}
	loader, ve := cfg.build(o)
	// the schema context is served as a real document
	ctxLoader := &ctxOrigin{scripted: o, extra: map[string][]byte{g.sch.URL: g.ContextDoc()}, policy: []string{"max-age=3600", "max-age=3", "no-store", "max-age=0"}[r.Intn(4)]}
	loader2, ve2 := loaderWithCtx(cfg, ctxLoader)
	_ = loader
	_ = ve
	// sequential oracle
	seqMz, err := merklize.MerklizeJSONLD(ctx, bytes.NewReader(doc), merklize.WithDocumentLoader(loader2))
	if err != nil {
		out.Emit(Case{Op: "none", In: J{"doc": string(doc)}, Impl: errJ(err), Prop: &PropRes{OK: false, Why: "sequential merklization failed: " + err.Error()}, NT: true})
		return
	}
	seqRoot := seqMz.Root().BigInt().String()
	var paths []merklize.Path
	var seqProofs []string
	for _, e := range seqMz.VerifEntries() {
		p, _ := seqMz.Options().NewPath(e.VerifKeyParts()...)
		paths = append(paths, p)
		pr, _, _ := seqMz.Proof(ctx, p)
		seqProofs = append(seqProofs, proofSig(pr))
		if len(paths) >= 6 {
			break
		}
	}
	hvWant, _ := merklize.HashValue(xsdNS+"integer", 12345)
	small := hSmall(65537)
	urls := []string{warm, expiring, nostore, embedded, "https://ctx.example/missing.jsonld", stale, stale}
	want := map[string]int{warm: 11, expiring: 22, nostore: 33, embedded: 1234, "https://ctx.example/missing.jsonld": -1, stale: 44, pageA: 33, pageB: 11, pageC: 33}
	loadURLs := append(append([]string{}, urls...), pageA, pageA, pageB, pageC)
	var mu sync.Mutex
	var why []string
	fail := func(s string) {
		mu.Lock()
		if len(why) < 5 {
			why = append(why, s)
		}
		mu.Unlock()
	}
	stop := make(chan struct{})
	if ve2 != nil {
		go func() { // time passes while the goroutines run: entries expire during the run
			// ... less than an hour of it in all: the memory engine hands out its embedded documents as valid for one hour from
			// the moment of the read, and the virtual clock shifts that answer too - a mix that runs for more than 7 s on a busy
			// machine would see them "expired", which no real clock ever shows
			for n := 0; ; n++ {
				select {
				case <-stop:
					return
				case <-time.After(2 * time.Millisecond):
					if n < maxVirtualTicks {
						ve2.tick(1)
					}
				}
			}
		}()
	}
	var wg sync.WaitGroup
	seeds := make([]uint64, goroutines)
	for i := range seeds {
		seeds[i] = r.U64()
	}
	for gi := 0; gi < goroutines; gi++ {
		wg.Add(1)
		go func(gi int) {
			defer wg.Done()
			defer func() {
				if rec := recover(); rec != nil {
					fail(fmt.Sprintf("goroutine panicked: %v", rec))
				}
			}()
			lr := NewRng(seeds[gi])
			for k := 0; k < rounds; k++ {
				switch lr.Intn(4) {
				case 0:
					mz, err := merklize.MerklizeJSONLD(ctx, bytes.NewReader(doc), merklize.WithDocumentLoader(loader2))
					if err != nil {
						fail("concurrent merklization failed: " + err.Error())
					} else if mz.Root().BigInt().String() != seqRoot {
						fail("concurrent merklization gives another root than the sequential one")
					}
				case 1:
					if len(paths) > 0 {
						i := lr.Intn(len(paths))
						pr, val, err := seqMz.Proof(ctx, paths[i])
						if err != nil || proofSig(pr) != seqProofs[i] || val == nil {
							fail("proof from the shared merklizer differs from the sequential one")
						} else {
							kh, _ := paths[i].MtEntry()
							vh, _ := val.MtEntry()
							if !merkletree.VerifyProof(seqMz.Root(), pr, kh, vh) {
								fail("proof from the shared merklizer does not verify")
							}
						}
					}
				case 2:
					// two hashers with different primes in use at the same time: each keeps its own integer range
					switch lr.Intn(3) {
					case 0:
						hv, err := merklize.HashValue(xsdNS+"integer", 12345)
						if err != nil || hv.Cmp(hvWant) != 0 {
							fail("concurrent HashValue differs")
						}
						if hv2, err := merklize.HashValue(xsdNS+"integer", 40000); err != nil || hv2.Int64() != 40000 {
							fail(fmt.Sprintf("concurrent HashValue(40000) under the default hasher: %v %v", hv2, err))
						}
					case 1:
						if hv2, err := merklize.HashValueWithHasher(small.H, xsdNS+"integer", 40000); err == nil {
							fail(fmt.Sprintf("40000 is outside the integer range of the prime 65537 but was accepted concurrently (%v)", hv2))
						}
					default:
						if hv2, err := merklize.HashValueWithHasher(small.H, xsdNS+"integer", -123); err != nil || hv2.Int64() != 65537-123 {
							fail(fmt.Sprintf("concurrent HashValueWithHasher(-123) under the prime 65537: %v %v", hv2, err))
						}
					}
				default:
					u := loadURLs[lr.Intn(len(loadURLs))]
					d, err := loader2.LoadDocument(u)
					got := -1
					if err == nil {
						got = docVersion(d)
					}
					if got != want[u] {
						fail(fmt.Sprintf("concurrent load of %s gives %d, sequentially %d", u, got, want[u]))
					}
				}
			}
		}(gi)
	}
	waitOrHang(&wg, 60*time.Second, func() { fail("hang: the goroutines of the mix did not finish within 60 s") })
	close(stop)
	impl := J{}
	org := J{}
	for _, u := range urls {
		if want[u] >= 0 {
			impl[u] = J{"ok": want[u]}
		} else {
			impl[u] = J{"err": "err"}
		}
	}
	for u, e := range o.docs {
		if e.alt == "" {
			org[u] = e.ver
		}
	}
	uj := make([]any, len(urls))
	for i, u := range urls {
		uj[i] = u
	}
	out.Emit(Case{Op: "loader.expected", In: J{"cfg": cfg.J(), "origin": org, "urls": uj, "goroutines": goroutines, "rounds": rounds}, Impl: impl, Prop: propOf(why),
		Tags: []string{fmt.Sprintf("goroutines:%d", goroutines), "cache:" + cfg.cacheMode, "ctxpolicy:" + ctxLoader.policy}, NT: true})
}

// virtual seconds that may pass during one mix (see emitMix)
const maxVirtualTicks = 3000

// waitOrHang waits for the group; when it does not finish in time the mix is reported as hanging (the goroutines stay behind)
func waitOrHang(wg *sync.WaitGroup, d time.Duration, onHang func()) {
	done := make(chan struct{})
	go func() { wg.Wait(); close(done) }()
	// wall time, like guard: the wait is scaled by VERIF_TIMEOUT_SCALE (the confirmation run) and extended while the load average
	// says the cores are oversubscribed - goroutines that really hang are still reported, later
	d = time.Duration(float64(d) * timeoutScale())
	for ext := 0; ; ext++ {
		select {
		case <-done:
			return
		case <-time.After(d):
		}
		if ext >= 8 || !overloaded() {
			onHang()
			return
		}
	}
}

// one credential object (with a proof) shared by many goroutines that merklize it, build claims from it, read its proof's claim
// and verify it: every result equals the sequential one, the object is only read
func emitSharedCredential(out *Out, r *Rng, goroutines int) {
	s := newVerifySetup(r, false, 0)
	s.vc.Proof = verifiable.CredentialProofs{s.is.SignBJJ(s.claim)}
	loader := s.c.loader()
	merklize.SetDocumentLoader(loader)
	reg := &verifiable.CredentialStatusResolverRegistry{}
	var regMu sync.Mutex
	reg.Register(verifiable.SparseMerkleTreeProof, statusResolver{func(st verifiable.CredentialStatus) (verifiable.RevocationStatus, error) {
		regMu.Lock()
		defer regMu.Unlock()
		return s.is.RevStatus(st.RevocationNonce), nil
	}})
	ctx := context.Background()
	mz0, err := s.vc.Merklize(ctx, merklize.WithDocumentLoader(loader))
	if err != nil {
		return
	}
	root0 := mz0.Root().BigInt().String()
	cl0, _ := s.vc.GetCoreClaimFromProof(verifiable.BJJSignatureProofType)
	hex0, _ := cl0.Hex()
	var mu sync.Mutex
	var why []string
	fail := func(m string) {
		mu.Lock()
		if len(why) < 4 {
			why = append(why, m)
		}
		mu.Unlock()
	}
	var wg sync.WaitGroup
	for gi := 0; gi < goroutines; gi++ {
		wg.Add(1)
		go func(gi int) {
			defer wg.Done()
			defer func() {
				if rec := recover(); rec != nil {
					fail(fmt.Sprintf("goroutine panicked: %v", rec))
				}
			}()
			for k := 0; k < 6; k++ {
				switch (gi + k) % 4 {
				case 0:
					mz, err := s.vc.Merklize(ctx, merklize.WithDocumentLoader(loader))
					if err != nil || mz.Root().BigInt().String() != root0 {
						fail(fmt.Sprintf("concurrent Merklize of one shared credential object: %v (sequentially: root %s)", err, trunc(root0, 20)))
					}
				case 1:
					cl, err := s.vc.GetCoreClaimFromProof(verifiable.BJJSignatureProofType)
					if err != nil {
						fail(fmt.Sprintf("concurrent GetCoreClaimFromProof on one shared credential object: %v", err))
					} else if h, _ := cl.Hex(); h != hex0 {
						fail("concurrent GetCoreClaimFromProof gives another claim than sequentially")
					}
				case 2:
					calls := 0
					if err := s.vc.VerifyProof(ctx, verifiable.BJJSignatureProofType, resolverCfg{mode: "unpublished"}.resolver(&calls), verifiable.WithStatusResolverRegistry(reg)); err != nil {
						fail(fmt.Sprintf("concurrent VerifyProof of one shared credential object: %v (sequentially it verifies)", err))
					}
				default:
					if _, err := s.vc.ToCoreClaim(ctx, &verifiable.CoreClaimOptions{RevNonce: 1, MerklizerOpts: []merklize.MerklizeOption{merklize.WithDocumentLoader(loader)}}); err != nil {
						fail(fmt.Sprintf("concurrent ToCoreClaim of one shared credential object: %v", err))
					}
				}
			}
		}(gi)
	}
	waitOrHang(&wg, 60*time.Second, func() { fail("hang: goroutines sharing one credential object did not finish within 60 s") })
	if len(s.vc.Proof) != 1 {
		fail(fmt.Sprintf("the shared credential object has %d proofs after the concurrent use, it had 1", len(s.vc.Proof)))
	}
	mu.Lock()
	defer mu.Unlock()
	out.Emit(Case{Op: "none", In: J{"sharedCredential": goroutines}, Impl: J{}, Prop: propOf(append([]string{}, why...)), Tags: []string{"shared-credential", fmt.Sprintf("goroutines:%d", goroutines)}, NT: true})
}

// slowOrigin answers like the scripted origin, a little later: loads overlap
type slowOrigin struct {
	inner http.RoundTripper
	delay time.Duration
}

func (s slowOrigin) RoundTrip(req *http.Request) (*http.Response, error) {
	time.Sleep(s.delay)
	return s.inner.RoundTrip(req)
}

// a burst: many goroutines at once load documents that take more than one request each (pages with an alternate link,
// ipfs URLs through a gateway) through one shared loader with a cold or never-filled cache
func emitBurst(out *Out, r *Rng, goroutines int) {
	o := &scriptedOrigin{docs: map[string]*orgEntry{}}
	gw := "https://gw.example"
	doc, page, page2 := "https://ctx.example/doc.jsonld", "https://ctx.example/burst-page", "https://ctx.example/burst-page2"
	o.docs[doc] = &orgEntry{ver: 7, policy: "no-store"}
	o.docs[page] = &orgEntry{alt: doc, policy: "no-store"}
	o.docs[page2] = &orgEntry{alt: page, policy: "max-age=0"}
	o.docs[gw+"/ipfs/QmBurst/a.json"] = &orgEntry{ver: 8, policy: "no-store"}
	o.docs[gw+"/ipfs/QmBurst/b.json"] = &orgEntry{ver: 9, policy: "max-age=3600"}
	loader := loaders.NewDocumentLoader(nil, gw, loaders.WithHTTPClient(&http.Client{Transport: slowOrigin{o, time.Duration(1+r.Intn(3)) * time.Millisecond}}))
	// ... and URLs whose load fails, each in its own way: every one of the concurrent loads reports the error
	bad500, bad404, badNet, badBody, badPage := "https://ctx.example/e500", "https://ctx.example/e404", "https://ctx.example/enet", "https://ctx.example/ebody", "https://ctx.example/epage"
	o.docs[bad500] = &orgEntry{fail: "500"}
	o.docs[badNet] = &orgEntry{fail: "transport"}
	o.docs[badBody] = &orgEntry{fail: "garbage"}
	o.docs[badPage] = &orgEntry{alt: bad404, policy: "max-age=60"}
	urls := []string{page, page2, "ipfs://QmBurst/a.json", "ipfs://QmBurst/b.json", doc, bad500, bad404, badNet, badBody, badPage, "ipfs://QmBurst/missing.json"}
	want := map[string]int{page: 7, page2: 7, "ipfs://QmBurst/a.json": 8, "ipfs://QmBurst/b.json": 9, doc: 7,
		bad500: -1, bad404: -1, badNet: -1, badBody: -1, badPage: -1, "ipfs://QmBurst/missing.json": -1}
	var mu sync.Mutex
	var why []string
	okN := 0
	var wg sync.WaitGroup
	for gi := 0; gi < goroutines; gi++ {
		wg.Add(1)
		u := urls[(gi+r.Intn(2))%len(urls)]
		go func(u string) {
			defer wg.Done()
			for k := 0; k < 3; k++ {
				d, err := loader.LoadDocument(u)
				got := -1
				if err == nil && d != nil {
					got = docVersion(d)
				}
				mu.Lock()
				if err == nil && d == nil && len(why) < 4 {
					why = append(why, fmt.Sprintf("burst of %d goroutines: load of %s returns no document and no error", goroutines, u))
				}
				if got != want[u] && len(why) < 4 {
					why = append(why, fmt.Sprintf("burst of %d goroutines: load of %s gives %d (%v), sequentially %d", goroutines, u, got, err, want[u]))
				}
				okN++
				mu.Unlock()
			}
		}(u)
	}
	waitOrHang(&wg, 30*time.Second, func() {
		mu.Lock()
		why = append(why, fmt.Sprintf("hang: a burst of %d goroutines loading through one shared loader did not finish within 30 s (%d of %d loads returned)", goroutines, okN, 3*goroutines))
		mu.Unlock()
	})
	mu.Lock()
	defer mu.Unlock()
	out.Emit(Case{Op: "none", In: J{"burst": goroutines}, Impl: J{"returned": okN}, Prop: propOf(append([]string{}, why...)), Tags: []string{"burst", fmt.Sprintf("goroutines:%d", goroutines)}, NT: true})
}

// ---------- the data slots of a non-merklized credential, under many schedules ----------

// schedHasher answers exactly like the Poseidon hasher; hashing one of the listed messages (the key IRIs of the fields the data
// slots are read from) just takes a little longer. Whatever runs concurrently inside or next to a call gets ready in another
// order; a sequential execution only becomes slower. The values never depend on the delays.
type schedHasher struct {
	merklize.PoseidonHasher
	delay map[string]time.Duration
}

func (h schedHasher) HashBytes(msg []byte) (*big.Int, error) {
	if d := h.delay[string(msg)]; d > 0 {
		time.Sleep(d)
	}
	return h.PoseidonHasher.HashBytes(msg)
}

// slotVariant: one credential of a type with a serialization attribute, and what filling its slots one after the other gives
type slotVariant struct {
	fault     string // none | absent (term defined, field not set) | undefined (the attribute names a field the type does not have)
	faultSlot string
	cred      *ACred
	vc        *verifiable.W3CCredential
	fields    [4]string // field path per slot (IndexA, IndexB, ValueA, ValueB); "" = unassigned
	iris      [4]string // key IRI of that field
	opts      verifiable.CoreClaimOptions
	wantErr   bool // a slot cannot be filled: sequentially an error
	wantWhy   string
	wantSlots [4]*big.Int
	refHex    string // the claim one sequential call gives (plain hasher)
	refErr    error
	mu        sync.Mutex
	why       []string
	calls     int
}

func (v *slotVariant) fail(m string) {
	v.mu.Lock()
	if len(v.why) < 4 {
		v.why = append(v.why, m)
	}
	v.mu.Unlock()
}

// oracle: the slots filled one after the other by the harness itself through the merklizer's public API
func (v *slotVariant) sequentialSlots(ctx context.Context, loader merklize.MerklizeOption) {
	for i := range v.wantSlots {
		v.wantSlots[i] = big.NewInt(0)
	}
	mz, err := v.vc.Merklize(ctx, loader)
	if err != nil {
		v.wantErr, v.wantWhy = true, "the credential cannot be merklized: "+trunc(err.Error(), 80)
		return
	}
	for i, f := range v.fields {
		if f == "" {
			continue
		}
		p, err := mz.ResolveDocPath("credentialSubject." + f)
		if err != nil {
			v.wantErr, v.wantWhy = true, fmt.Sprintf("the field %s of %s does not resolve", f, slotKeys[i])
			return
		}
		e, err := mz.Entry(p)
		if err != nil {
			v.wantErr, v.wantWhy = true, fmt.Sprintf("the credential has no field %s for %s", f, slotKeys[i])
			return
		}
		x, err := e.ValueMtEntry()
		if err != nil {
			v.wantErr, v.wantWhy = true, fmt.Sprintf("the value of the field %s of %s cannot be hashed", f, slotKeys[i])
			return
		}
		v.wantSlots[i] = x
	}
}

// judge one result of ToCoreClaim against the sequential one
func (v *slotVariant) judge(how string, cl *core.Claim, err error) {
	v.mu.Lock()
	v.calls++
	v.mu.Unlock()
	if errors.Is(err, errHang) {
		v.fail("hang: ToCoreClaim " + how + " did not return within 20 s")
		return
	}
	var pe *panicErr
	if errors.As(err, &pe) {
		v.fail("ToCoreClaim " + how + " panicked: " + trunc(pe.Error(), 160))
		return
	}
	if err == nil && cl == nil {
		v.fail("ToCoreClaim " + how + " returns no claim and no error")
		return
	}
	if v.wantErr {
		if err == nil {
			s := cl.RawSlotsAsInts()
			v.fail(fmt.Sprintf("ToCoreClaim %s returns a claim (data slots %v %v %v %v) although %s: filling the slots one after the other gives an error",
				how, s[2], s[3], s[6], s[7], v.wantWhy))
		}
		return
	}
	if v.refErr != nil {
		if err == nil {
			v.fail(fmt.Sprintf("ToCoreClaim %s returns a claim; the sequential call fails (%s)", how, trunc(v.refErr.Error(), 80)))
		}
		return
	}
	if err != nil {
		v.fail(fmt.Sprintf("ToCoreClaim %s fails (%s); the sequential call gives a claim", how, trunc(err.Error(), 100)))
		return
	}
	if h, _ := cl.Hex(); h != v.refHex {
		s := cl.RawSlotsAsInts()
		v.fail(fmt.Sprintf("ToCoreClaim %s gives another claim than the sequential call (data slots %v %v %v %v, sequentially %v)", how, s[2], s[3], s[6], s[7], v.wantSlots))
	}
}

func (v *slotVariant) call(ctx context.Context, loader merklize.MerklizeOption, h merklize.Hasher) (*core.Claim, error) {
	o := v.opts // every call its own options object
	o.MerklizerOpts = []merklize.MerklizeOption{loader}
	if h != nil {
		o.MerklizerOpts = append(o.MerklizerOpts, merklize.WithHasher(h))
	}
	return guard(20*time.Second, func() (*core.Claim, error) { return v.vc.ToCoreClaim(ctx, &o) })
}

// a schedule: a delay per assigned slot's field; ranks of a permutation times a step, so that the slots' lookups get ready in
// the order of the permutation when they run concurrently
func (v *slotVariant) schedule(perm []int, step time.Duration) (schedHasher, []any) {
	h := schedHasher{delay: map[string]time.Duration{}}
	var desc []any
	k := 0
	for i, f := range v.fields {
		if f == "" {
			continue
		}
		d := time.Duration(perm[k%len(perm)]) * step
		k++
		h.delay[v.iris[i]] = d
		desc = append(desc, fmt.Sprintf("%s+%dms", slotKeys[i], d/time.Millisecond))
	}
	return h, desc
}

// emitSlotSchedules: credentials of one non-merklized type family (2-4 of the four data slots assigned to distinct fields, plain
// and nested) - complete, with the field of one assigned slot not set, and with an attribute naming a field the type does not
// define - are turned into core claims (a) by one caller under several schedules of the slots' lookups and (b) by many
// goroutines at once, all through one shared loader and cache. Every call must give what filling the slots one after the
// other gives: the same claim, or an error when a slot cannot be filled - never a claim with that slot left empty.
func emitSlotSchedules(out *Out, r *Rng, goroutines, rounds int) {
	ctx := context.Background()
	base := randCred(r, false)
	base.SubjectTypeAs = "string"
	id := r.Intn(1 << 30)
	nf := len(base.Fields)
	k := 2
	if nf > 2 {
		m := nf
		if m > 4 {
			m = 4
		}
		k += r.Intn(m - 1)
	}
	fperm, sperm := r.Perm(nf), r.Perm(4)
	var fields [4]string
	var parts []string
	for i := 0; i < k; i++ {
		fields[sperm[i]] = base.Fields[fperm[i]].Name
		parts = append(parts, slotKeys[sperm[i]]+"="+base.Fields[fperm[i]].Name)
	}
	base.SerAttr = "iden3:v1:" + strings.Join(parts, "&")
	var assigned []int
	for i, f := range fields {
		if f != "" {
			assigned = append(assigned, i)
		}
	}
	extra := map[string][]byte{vcCtxURL: []byte(vcCtx)}
	var vs []*slotVariant
	for _, fault := range []string{"none", "absent", "undefined"} {
		c := *base
		c.Fields = append([]CField{}, base.Fields...)
		c.TypeURL = fmt.Sprintf("https://ctx.example/c20-slots-%d-%s.jsonld", id, fault)
		v := &slotVariant{fault: fault, cred: &c, fields: fields}
		if fault != "none" {
			fs := assigned[r.Intn(len(assigned))]
			v.faultSlot = slotKeys[fs]
			var kept []CField
			for _, f := range c.Fields {
				if f.Name == fields[fs] {
					if fault == "undefined" {
						continue
					}
					f.Absent = true
				}
				kept = append(kept, f)
			}
			c.Fields = kept
		}
		for i, f := range fields {
			if f != "" {
				v.iris[i] = "urn:ex:cred-vocab#" + strings.TrimPrefix(f, "addr.")
			}
		}
		vc, err := c.W3C()
		if err != nil {
			out.Emit(Case{Op: "none", In: J{"slotSchedules": J{"credential": string(c.JSON())}}, Impl: errJ(err), Prop: &PropRes{OK: false, Why: "harness: the generated credential does not parse: " + err.Error()}, NT: true})
			return
		}
		v.vc = vc
		v.opts = verifiable.CoreClaimOptions{RevNonce: r.U64() >> uint(r.Intn(64)), Version: uint32(r.Intn(3)), Updatable: r.Bool(),
			SubjectPosition: []string{"", verifiable.CredentialSubjectPositionIndex, verifiable.CredentialSubjectPositionValue}[r.Intn(3)]}
		extra[c.TypeURL] = c.typeContext()
		if c.SingleContext {
			extra[c.bundleURL()] = c.bundleContext()
		}
		vs = append(vs, v)
	}
	// one shared loader and cache for everything that follows; the contexts come from an origin that answers a little late
	cfg := loaderCfg{cacheMode: []string{"memory", "virtual"}[r.Intn(2)]}
	origin := &ctxOrigin{scripted: &scriptedOrigin{docs: map[string]*orgEntry{}}, extra: extra, policy: []string{"max-age=3600", "max-age=3", "no-store", "max-age=0"}[r.Intn(4)]}
	ldr, ve := loaderWithCtx(cfg, slowOrigin{origin, time.Duration(r.Intn(3)) * time.Millisecond})
	loader := merklize.WithDocumentLoader(ldr)
	stop := make(chan struct{})
	if ve != nil {
		go func() {
			for n := 0; ; n++ {
				select {
				case <-stop:
					return
				case <-time.After(2 * time.Millisecond):
					if n < maxVirtualTicks {
						ve.tick(1)
					}
				}
			}
		}()
	}
	defer close(stop)
	step := time.Duration(5+r.Intn(8)) * time.Millisecond
	var schedDesc []any
	for _, v := range vs {
		v.sequentialSlots(ctx, loader)
		cl, err := v.call(ctx, loader, nil)
		if err == nil && cl != nil {
			v.refHex, _ = cl.Hex()
			if !v.wantErr {
				s := cl.RawSlotsAsInts()
				for i, si := range []int{2, 3, 6, 7} {
					if s[si].Cmp(v.wantSlots[i]) != 0 {
						v.fail(fmt.Sprintf("ToCoreClaim (one caller, plain hasher) puts %v into %s; the value of the field %q hashes to %v", s[si], slotKeys[i], v.fields[i], v.wantSlots[i]))
						break
					}
				}
			}
		} else {
			v.refErr = err
			if err == nil {
				v.refErr = errNilNil
			}
		}
		v.judge("(one caller, plain hasher)", cl, err)
		// (a) one caller, the slots' lookups scheduled: a permutation, its reverse, and a random vector of delays
		perm := r.Perm(k)
		rev := make([]int, k)
		for i := range perm {
			rev[i] = k - 1 - perm[i]
		}
		rnd := make([]int, k)
		for i := range rnd {
			rnd[i] = r.Intn(k)
		}
		for _, p := range [][]int{perm, rev, rnd} {
			h, desc := v.schedule(p, step)
			schedDesc = append(schedDesc, desc)
			cl, err := v.call(ctx, loader, h)
			v.judge(fmt.Sprintf("(one caller, schedule %v)", desc), cl, err)
		}
	}
	// (b) many goroutines share the loader, the cache and the credential objects
	seeds := make([]uint64, goroutines)
	for i := range seeds {
		seeds[i] = r.U64()
	}
	var wg sync.WaitGroup
	for gi := 0; gi < goroutines; gi++ {
		wg.Add(1)
		go func(gi int) {
			defer wg.Done()
			lr := NewRng(seeds[gi])
			for n := 0; n < rounds; n++ {
				v := vs[lr.Intn(len(vs))]
				if lr.Chance(40) {
					cl, err := v.call(ctx, loader, nil)
					v.judge(fmt.Sprintf("(one of %d goroutines, plain hasher)", goroutines), cl, err)
					continue
				}
				h, desc := v.schedule(lr.Perm(k), step)
				cl, err := v.call(ctx, loader, h)
				v.judge(fmt.Sprintf("(one of %d goroutines, schedule %v)", goroutines, desc), cl, err)
			}
		}(gi)
	}
	waitOrHang(&wg, 90*time.Second, func() {
		for _, v := range vs {
			v.fail(fmt.Sprintf("hang: %d goroutines building claims through one shared loader did not finish within 90 s", goroutines))
		}
	})
	for _, v := range vs {
		v.mu.Lock()
		seq := "claim"
		if v.wantErr || v.refErr != nil {
			seq = "err"
		}
		in := J{"attr": base.SerAttr, "fault": v.fault, "faultSlot": v.faultSlot, "credential": string(v.cred.JSON()), "context": string(v.cred.typeContext()),
			"goroutines": goroutines, "rounds": rounds, "stepMs": int(step / time.Millisecond), "cache": cfg.cacheMode, "ctxpolicy": origin.policy}
		out.Emit(Case{Op: "none", In: J{"slotSchedules": in}, Impl: J{"sequential": seq}, Prop: propOf(append([]string{}, v.why...)),
			Tags: []string{"slot-schedules", "fault:" + v.fault, fmt.Sprintf("slots:%d", k), fmt.Sprintf("goroutines:%d", goroutines), "cache:" + cfg.cacheMode}, NT: true})
		v.mu.Unlock()
	}
	_ = schedDesc
}

func proofSig(p *merkletree.Proof) string {
	if p == nil {
		return "nil"
	}
	s := fmt.Sprint(p.Existence)
	for _, x := range p.AllSiblings() {
		s += ":" + x.BigInt().String()
	}
	return s
}

var _ = big.NewInt

func genC20(out *Out, r *Rng, tier string, n int, shard int) {
	for i := 0; i < n; i++ {
		gs := []int{2, 4, 8, 16, 32, 64}[r.Intn(6)]
		emitMix(out, r, gs, 6+r.Intn(20))
		if i == 0 {
			emitBurst(out, r, []int{24, 48, 96}[r.Intn(3)])
			emitSharedCredential(out, r, []int{4, 16, 32}[r.Intn(3)])
		}
	}
	// after the mixes (their inputs stay what they were for a given seed)
	for j := 0; j < 1+n/8; j++ {
		emitSlotSchedules(out, r, []int{2, 4, 8, 16}[r.Intn(4)], 2+r.Intn(2))
	}
}

func init() { gens["C20"] = genC20 }
