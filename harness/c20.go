package main

import (
	"bytes"
	"context"
	"fmt"
	"math/big"
	"net/http"
	"sync"
	"time"

	"github.com/iden3/go-merkletree-sql/v2"
	"github.com/iden3/go-schema-processor/v2/loaders"
	"github.com/iden3/go-schema-processor/v2/merklize"
	"github.com/iden3/go-schema-processor/v2/verifiable"
)

// C20: randomized mixes of merklize / proof / hash / load on 2-64 goroutines sharing one loader, one cache and one
// merklizer; built with -race. Every goroutine's result must equal the sequential oracle computed beforehand.
func emitMix(out *Out, r *Rng, goroutines, rounds int) {
	ctx := context.Background()
	// documents and their context, served by the scripted origin through the shared loader
	g := NewDocGen(r, 2)
	g.noGraph = true
	root := g.node(g.sch.Root, 0, true)
	pres := plainPresentation(r)
	pres.ctxMode = 1 // context by URL: every merklization goes through the shared loader
	doc := g.Render(root, pres)
	o := &scriptedOrigin{docs: map[string]*orgEntry{}}
	warm := "https://ctx.example/warm.jsonld"
	expiring := "https://ctx.example/expiring.jsonld"
	nostore := "https://ctx.example/nostore.jsonld"
	embedded := "https://ctx.example/embedded.jsonld"
	stale := "https://ctx.example/stale.jsonld" // storable, but its lifetime is over at once: every read finds an expired entry
	cfg := loaderCfg{cacheMode: []string{"memory", "virtual", "virtual"}[r.Intn(3)], embedded: map[string]int{embedded: 1234}}
	o.docs[warm] = &orgEntry{ver: 11, policy: "max-age=3600"}
	o.docs[expiring] = &orgEntry{ver: 22, policy: "max-age=3"}
	o.docs[nostore] = &orgEntry{ver: 33, policy: "no-store"}
	o.docs[stale] = &orgEntry{ver: 44, policy: "max-age=0"}
	// pages that are no JSON documents and name one with an alternate link: never stored / stored / found expired at once
	pageA, pageB, pageC := "https://ctx.example/pageA", "https://pages.example/pageB", "https://pages.example/pageC"
	o.docs[pageA] = &orgEntry{alt: nostore, policy: "no-store"}
	o.docs[pageB] = &orgEntry{alt: warm, policy: "max-age=3600"}
	o.docs[pageC] = &orgEntry{alt: pageA, policy: "max-age=0"}
	loader, ve := cfg.build(o)
	// the schema context is served as a real document
	ctxLoader := &ctxOrigin{scripted: o, extra: map[string][]byte{g.sch.URL: g.ContextDoc()}, policy: []string{"max-age=3600", "max-age=3", "no-store", "max-age=0"}[r.Intn(4)]}
	loader2, ve2 := loaderWithCtx(cfg, ctxLoader)
	_ = loader
	_ = ve
	// sequential oracle
	seqMz, err := merklize.MerklizeJSONLD(ctx, bytes.NewReader(doc), merklize.WithDocumentLoader(loader2))
	if err != nil {
		out.Emit(Case{Op: "none", In: J{"doc": string(doc)}, Impl: errJ(err), Prop: &PropRes{OK: false, Why: "sequential merklization failed: " + err.Error()}, NT: true})
		return
	}
	seqRoot := seqMz.Root().BigInt().String()
	var paths []merklize.Path
	var seqProofs []string
	for _, e := range seqMz.VerifEntries() {
		p, _ := seqMz.Options().NewPath(e.VerifKeyParts()...)
		paths = append(paths, p)
		pr, _, _ := seqMz.Proof(ctx, p)
		seqProofs = append(seqProofs, proofSig(pr))
		if len(paths) >= 6 {
			break
		}
	}
	hvWant, _ := merklize.HashValue(xsdNS+"integer", 12345)
	small := hSmall(65537)
	urls := []string{warm, expiring, nostore, embedded, "https://ctx.example/missing.jsonld", stale, stale}
	want := map[string]int{warm: 11, expiring: 22, nostore: 33, embedded: 1234, "https://ctx.example/missing.jsonld": -1, stale: 44, pageA: 33, pageB: 11, pageC: 33}
	loadURLs := append(append([]string{}, urls...), pageA, pageA, pageB, pageC)
	var mu sync.Mutex
	var why []string
	fail := func(s string) {
		mu.Lock()
		if len(why) < 5 {
			why = append(why, s)
		}
		mu.Unlock()
	}
	stop := make(chan struct{})
	if ve2 != nil {
		go func() { // time passes while the goroutines run: entries expire during the run
			for {
				select {
				case <-stop:
					return
				case <-time.After(2 * time.Millisecond):
					ve2.tick(1)
				}
			}
		}()
	}
	var wg sync.WaitGroup
	seeds := make([]uint64, goroutines)
	for i := range seeds {
		seeds[i] = r.U64()
	}
	for gi := 0; gi < goroutines; gi++ {
		wg.Add(1)
		go func(gi int) {
			defer wg.Done()
			defer func() {
				if rec := recover(); rec != nil {
					fail(fmt.Sprintf("goroutine panicked: %v", rec))
				}
			}()
			lr := NewRng(seeds[gi])
			for k := 0; k < rounds; k++ {
				switch lr.Intn(4) {
				case 0:
					mz, err := merklize.MerklizeJSONLD(ctx, bytes.NewReader(doc), merklize.WithDocumentLoader(loader2))
					if err != nil {
						fail("concurrent merklization failed: " + err.Error())
					} else if mz.Root().BigInt().String() != seqRoot {
						fail("concurrent merklization gives another root than the sequential one")
					}
				case 1:
					if len(paths) > 0 {
						i := lr.Intn(len(paths))
						pr, val, err := seqMz.Proof(ctx, paths[i])
						if err != nil || proofSig(pr) != seqProofs[i] || val == nil {
							fail("proof from the shared merklizer differs from the sequential one")
						} else {
							kh, _ := paths[i].MtEntry()
							vh, _ := val.MtEntry()
							if !merkletree.VerifyProof(seqMz.Root(), pr, kh, vh) {
								fail("proof from the shared merklizer does not verify")
							}
						}
					}
				case 2:
					// two hashers with different primes in use at the same time: each keeps its own integer range
					switch lr.Intn(3) {
					case 0:
						hv, err := merklize.HashValue(xsdNS+"integer", 12345)
						if err != nil || hv.Cmp(hvWant) != 0 {
							fail("concurrent HashValue differs")
						}
						if hv2, err := merklize.HashValue(xsdNS+"integer", 40000); err != nil || hv2.Int64() != 40000 {
							fail(fmt.Sprintf("concurrent HashValue(40000) under the default hasher: %v %v", hv2, err))
						}
					case 1:
						if hv2, err := merklize.HashValueWithHasher(small.H, xsdNS+"integer", 40000); err == nil {
							fail(fmt.Sprintf("40000 is outside the integer range of the prime 65537 but was accepted concurrently (%v)", hv2))
						}
					default:
						if hv2, err := merklize.HashValueWithHasher(small.H, xsdNS+"integer", -123); err != nil || hv2.Int64() != 65537-123 {
							fail(fmt.Sprintf("concurrent HashValueWithHasher(-123) under the prime 65537: %v %v", hv2, err))
						}
					}
				default:
					u := loadURLs[lr.Intn(len(loadURLs))]
					d, err := loader2.LoadDocument(u)
					got := -1
					if err == nil {
						got = docVersion(d)
					}
					if got != want[u] {
						fail(fmt.Sprintf("concurrent load of %s gives %d, sequentially %d", u, got, want[u]))
					}
				}
			}
		}(gi)
	}
	waitOrHang(&wg, 60*time.Second, func() { fail("hang: the goroutines of the mix did not finish within 60 s") })
	close(stop)
	impl := J{}
	org := J{}
	for _, u := range urls {
		if want[u] >= 0 {
			impl[u] = J{"ok": want[u]}
		} else {
			impl[u] = J{"err": "err"}
		}
	}
	for u, e := range o.docs {
		if e.alt == "" {
			org[u] = e.ver
		}
	}
	uj := make([]any, len(urls))
	for i, u := range urls {
		uj[i] = u
	}
	out.Emit(Case{Op: "loader.expected", In: J{"cfg": cfg.J(), "origin": org, "urls": uj, "goroutines": goroutines, "rounds": rounds}, Impl: impl, Prop: propOf(why),
		Tags: []string{fmt.Sprintf("goroutines:%d", goroutines), "cache:" + cfg.cacheMode, "ctxpolicy:" + ctxLoader.policy}, NT: true})
}

// waitOrHang waits for the group; when it does not finish in time the mix is reported as hanging (the goroutines stay behind)
func waitOrHang(wg *sync.WaitGroup, d time.Duration, onHang func()) {
	done := make(chan struct{})
	go func() { wg.Wait(); close(done) }()
	select {
	case <-done:
	case <-time.After(d):
		onHang()
	}
}

// one credential object (with a proof) shared by many goroutines that merklize it, build claims from it, read its proof's claim
// and verify it: every result equals the sequential one, the object is only read
func emitSharedCredential(out *Out, r *Rng, goroutines int) {
	s := newVerifySetup(r, false, 0)
	s.vc.Proof = verifiable.CredentialProofs{s.is.SignBJJ(s.claim)}
	loader := s.c.loader()
	merklize.SetDocumentLoader(loader)
	reg := &verifiable.CredentialStatusResolverRegistry{}
	var regMu sync.Mutex
	reg.Register(verifiable.SparseMerkleTreeProof, statusResolver{func(st verifiable.CredentialStatus) (verifiable.RevocationStatus, error) {
		regMu.Lock()
		defer regMu.Unlock()
		return s.is.RevStatus(st.RevocationNonce), nil
	}})
	ctx := context.Background()
	mz0, err := s.vc.Merklize(ctx, merklize.WithDocumentLoader(loader))
	if err != nil {
		return
	}
	root0 := mz0.Root().BigInt().String()
	cl0, _ := s.vc.GetCoreClaimFromProof(verifiable.BJJSignatureProofType)
	hex0, _ := cl0.Hex()
	var mu sync.Mutex
	var why []string
	fail := func(m string) {
		mu.Lock()
		if len(why) < 4 {
			why = append(why, m)
		}
		mu.Unlock()
	}
	var wg sync.WaitGroup
	for gi := 0; gi < goroutines; gi++ {
		wg.Add(1)
		go func(gi int) {
			defer wg.Done()
			defer func() {
				if rec := recover(); rec != nil {
					fail(fmt.Sprintf("goroutine panicked: %v", rec))
				}
			}()
			for k := 0; k < 6; k++ {
				switch (gi + k) % 4 {
				case 0:
					mz, err := s.vc.Merklize(ctx, merklize.WithDocumentLoader(loader))
					if err != nil || mz.Root().BigInt().String() != root0 {
						fail(fmt.Sprintf("concurrent Merklize of one shared credential object: %v (sequentially: root %s)", err, trunc(root0, 20)))
					}
				case 1:
					cl, err := s.vc.GetCoreClaimFromProof(verifiable.BJJSignatureProofType)
					if err != nil {
						fail(fmt.Sprintf("concurrent GetCoreClaimFromProof on one shared credential object: %v", err))
					} else if h, _ := cl.Hex(); h != hex0 {
						fail("concurrent GetCoreClaimFromProof gives another claim than sequentially")
					}
				case 2:
					calls := 0
					if err := s.vc.VerifyProof(ctx, verifiable.BJJSignatureProofType, resolverCfg{mode: "unpublished"}.resolver(&calls), verifiable.WithStatusResolverRegistry(reg)); err != nil {
						fail(fmt.Sprintf("concurrent VerifyProof of one shared credential object: %v (sequentially it verifies)", err))
					}
				default:
					if _, err := s.vc.ToCoreClaim(ctx, &verifiable.CoreClaimOptions{RevNonce: 1, MerklizerOpts: []merklize.MerklizeOption{merklize.WithDocumentLoader(loader)}}); err != nil {
						fail(fmt.Sprintf("concurrent ToCoreClaim of one shared credential object: %v", err))
					}
				}
			}
		}(gi)
	}
	waitOrHang(&wg, 60*time.Second, func() { fail("hang: goroutines sharing one credential object did not finish within 60 s") })
	if len(s.vc.Proof) != 1 {
		fail(fmt.Sprintf("the shared credential object has %d proofs after the concurrent use, it had 1", len(s.vc.Proof)))
	}
	mu.Lock()
	defer mu.Unlock()
	out.Emit(Case{Op: "none", In: J{"sharedCredential": goroutines}, Impl: J{}, Prop: propOf(append([]string{}, why...)), Tags: []string{"shared-credential", fmt.Sprintf("goroutines:%d", goroutines)}, NT: true})
}

// slowOrigin answers like the scripted origin, a little later: loads overlap
type slowOrigin struct {
	inner http.RoundTripper
	delay time.Duration
}

func (s slowOrigin) RoundTrip(req *http.Request) (*http.Response, error) {
	time.Sleep(s.delay)
	return s.inner.RoundTrip(req)
}

// a burst: many goroutines at once load documents that take more than one request each (pages with an alternate link,
// ipfs URLs through a gateway) through one shared loader with a cold or never-filled cache
func emitBurst(out *Out, r *Rng, goroutines int) {
	o := &scriptedOrigin{docs: map[string]*orgEntry{}}
	gw := "https://gw.example"
	doc, page, page2 := "https://ctx.example/doc.jsonld", "https://ctx.example/burst-page", "https://ctx.example/burst-page2"
	o.docs[doc] = &orgEntry{ver: 7, policy: "no-store"}
	o.docs[page] = &orgEntry{alt: doc, policy: "no-store"}
	o.docs[page2] = &orgEntry{alt: page, policy: "max-age=0"}
	o.docs[gw+"/ipfs/QmBurst/a.json"] = &orgEntry{ver: 8, policy: "no-store"}
	o.docs[gw+"/ipfs/QmBurst/b.json"] = &orgEntry{ver: 9, policy: "max-age=3600"}
	loader := loaders.NewDocumentLoader(nil, gw, loaders.WithHTTPClient(&http.Client{Transport: slowOrigin{o, time.Duration(1+r.Intn(3)) * time.Millisecond}}))
	// ... and URLs whose load fails, each in its own way: every one of the concurrent loads reports the error
	bad500, bad404, badNet, badBody, badPage := "https://ctx.example/e500", "https://ctx.example/e404", "https://ctx.example/enet", "https://ctx.example/ebody", "https://ctx.example/epage"
	o.docs[bad500] = &orgEntry{fail: "500"}
	o.docs[badNet] = &orgEntry{fail: "transport"}
	o.docs[badBody] = &orgEntry{fail: "garbage"}
	o.docs[badPage] = &orgEntry{alt: bad404, policy: "max-age=60"}
	urls := []string{page, page2, "ipfs://QmBurst/a.json", "ipfs://QmBurst/b.json", doc, bad500, bad404, badNet, badBody, badPage, "ipfs://QmBurst/missing.json"}
	want := map[string]int{page: 7, page2: 7, "ipfs://QmBurst/a.json": 8, "ipfs://QmBurst/b.json": 9, doc: 7,
		bad500: -1, bad404: -1, badNet: -1, badBody: -1, badPage: -1, "ipfs://QmBurst/missing.json": -1}
	var mu sync.Mutex
	var why []string
	okN := 0
	var wg sync.WaitGroup
	for gi := 0; gi < goroutines; gi++ {
		wg.Add(1)
		u := urls[(gi+r.Intn(2))%len(urls)]
		go func(u string) {
			defer wg.Done()
			for k := 0; k < 3; k++ {
				d, err := loader.LoadDocument(u)
				got := -1
				if err == nil && d != nil {
					got = docVersion(d)
				}
				mu.Lock()
				if err == nil && d == nil && len(why) < 4 {
					why = append(why, fmt.Sprintf("burst of %d goroutines: load of %s returns no document and no error", goroutines, u))
				}
				if got != want[u] && len(why) < 4 {
					why = append(why, fmt.Sprintf("burst of %d goroutines: load of %s gives %d (%v), sequentially %d", goroutines, u, got, err, want[u]))
				}
				okN++
				mu.Unlock()
			}
		}(u)
	}
	waitOrHang(&wg, 30*time.Second, func() {
		mu.Lock()
		why = append(why, fmt.Sprintf("hang: a burst of %d goroutines loading through one shared loader did not finish within 30 s (%d of %d loads returned)", goroutines, okN, 3*goroutines))
		mu.Unlock()
	})
	mu.Lock()
	defer mu.Unlock()
	out.Emit(Case{Op: "none", In: J{"burst": goroutines}, Impl: J{"returned": okN}, Prop: propOf(append([]string{}, why...)), Tags: []string{"burst", fmt.Sprintf("goroutines:%d", goroutines)}, NT: true})
}

func proofSig(p *merkletree.Proof) string {
	if p == nil {
		return "nil"
	}
	s := fmt.Sprint(p.Existence)
	for _, x := range p.AllSiblings() {
		s += ":" + x.BigInt().String()
	}
	return s
}

var _ = big.NewInt

func genC20(out *Out, r *Rng, tier string, n int, shard int) {
	for i := 0; i < n; i++ {
		gs := []int{2, 4, 8, 16, 32, 64}[r.Intn(6)]
		emitMix(out, r, gs, 6+r.Intn(20))
		if i == 0 {
			emitBurst(out, r, []int{24, 48, 96}[r.Intn(3)])
			emitSharedCredential(out, r, []int{4, 16, 32}[r.Intn(3)])
		}
	}
}

func init() { gens["C20"] = genC20 }
