package main

import (
	"context"
	"encoding/json"
	"fmt"
	"math"
	"math/big"
	"strconv"
	"strings"
	"sync"
	"time"

	"github.com/iden3/go-iden3-crypto/constants"
	"github.com/iden3/go-merkletree-sql/v2"
	"github.com/iden3/go-merkletree-sql/v2/db/memory"
	"github.com/iden3/go-schema-processor/v2/merklize"
	"github.com/piprate/json-gold/ld"
)

const xsdNS = "http://www.w3.org/2001/XMLSchema#"

var intTypes = []string{"integer", "nonNegativeInteger", "positiveInteger", "negativeInteger", "nonPositiveInteger"}

// the statement's table, evaluated with math/big only
func stmtRange(dt string, p *big.Int) (lo, hi *big.Int) {
	half := new(big.Int).Rsh(new(big.Int).Sub(p, big.NewInt(1)), 1) // (p-1)/2
	nhalf := new(big.Int).Neg(half)
	pm1 := new(big.Int).Sub(p, big.NewInt(1))
	switch dt {
	case "integer":
		return nhalf, half
	case "nonNegativeInteger":
		return big.NewInt(0), pm1
	case "positiveInteger":
		return big.NewInt(1), pm1
	case "negativeInteger":
		return nhalf, big.NewInt(-1)
	case "nonPositiveInteger":
		return nhalf, big.NewInt(0)
	}
	return nil, nil
}

func stmtEncInt(v, p *big.Int) *big.Int {
	if v.Sign() >= 0 {
		return new(big.Int).Set(v)
	}
	return new(big.Int).Add(p, v)
}

func canonOf(s string) any {
	f, err := strconv.ParseFloat(s, 64)
	if err != nil {
		return nil
	}
	return ld.GetCanonicalDouble(f)
}

func canonTable(ss ...string) J {
	t := J{}
	for _, s := range ss {
		c := canonOf(s)
		t[s] = c
		if cs, ok := c.(string); ok {
			t[cs] = canonOf(cs)
		}
	}
	return t
}

// hashLog, when set, records every standalone hashing call of the run so that a sample can be repeated later in
// another order: the encoding must be a function of (hasher, datatype, value), not of what was hashed before.
type hashRec struct {
	h    merklize.Hasher
	dt   string
	v    any
	impl string
}

var hashLog *[]hashRec
var hashLogMu sync.Mutex

func implHash(h merklize.Hasher, dt string, v any) J {
	out := implHash0(h, dt, v)
	if hashLog != nil {
		b, _ := json.Marshal(out)
		hashLogMu.Lock()
		*hashLog = append(*hashLog, hashRec{h, dt, v, string(b)})
		hashLogMu.Unlock()
	}
	return out
}

func implHash0(h merklize.Hasher, dt string, v any) J {
	r, err := guard(5*time.Second, func() (*big.Int, error) {
		x, e := merklize.HashValueWithHasher(h, dt, v)
		if e == nil && x == nil {
			return nil, errNilNil
		}
		return x, e
	})
	if err != nil {
		return errJ(err)
	}
	return okJ(r.String())
}

// integer spellings: name -> lexical form (exact value v)
func intSpellings(v *big.Int, r *Rng) map[string]string {
	s := v.String()
	abs := new(big.Int).Abs(v).String()
	sign := ""
	if v.Sign() < 0 {
		sign = "-"
	}
	out := map[string]string{"dec": s, "dot0": s + ".0", "e0": s + "e0", "lead0": sign + "00" + abs}
	if v.Sign() >= 0 {
		out["plus"] = "+" + s
	}
	// scientific: d.ddddE+k exact
	if len(abs) > 1 {
		out["sci"] = sign + abs[:1] + "." + abs[1:] + "E+" + strconv.Itoa(len(abs)-1)
		out["scineg"] = sign + abs + "0e-1"
	} else {
		out["sci"] = sign + abs + ".0E0"
	}
	return out
}

type c04gen struct {
	out   *Out
	r     *Rng
	shard int
}

func (g *c04gen) lexCase(hs HSpec, dt, lex string, want any, tags ...string) {
	full := xsdNS + dt
	impl := implHash(hs.H, full, lex)
	in := J{"h": hs.JSON, "dt": full, "lex": lex}
	if dt == "double" {
		in["canon"] = canonTable(lex)
	}
	g.out.Emit(Case{Op: "xsd.hash", In: in, Impl: impl, Prop: judge(impl, want), Tags: append(tags, "dt:"+dt, "h:"+hs.Name), NT: true})
	// the same literal as it reaches the tree: one quad, EntriesFromRDFWithHasher, the entry's value encoding - same meaning, same element
	if want != nil {
		ds := ld.NewRDFDataset()
		ds.Graphs["@default"] = []*ld.Quad{{Subject: ld.NewIRI("urn:a"), Predicate: ld.NewIRI("urn:p"), Object: ld.NewLiteral(lex, full, "")}}
		var impl2 J
		ents, err := guard(5*time.Second, func() ([]merklize.RDFEntry, error) { return merklize.EntriesFromRDFWithHasher(ds, hs.H) })
		if err != nil {
			impl2 = errJ(err)
		} else if len(ents) != 1 {
			impl2 = J{"err": "err"}
		} else if v, err := ents[0].ValueMtEntry(); err != nil {
			impl2 = errJ(err)
		} else {
			impl2 = okJ(v.String())
		}
		g.out.Emit(Case{Op: "none", In: J{"dt": full, "lex": lex, "via": "dataset"}, Impl: impl2, Prop: judge(impl2, want), Tags: append(append([]string{}, tags...), "dt:"+dt, "h:"+hs.Name, "via-dataset"), NT: true})
	}
}

// want: nil = no expectation; "err" = must be an error; *big.Int = must equal
func judge(impl J, want any) *PropRes {
	switch w := want.(type) {
	case nil:
		return &PropRes{OK: true}
	case string:
		if _, isErr := impl["err"]; isErr && impl["err"] == "err" {
			return &PropRes{OK: true}
		}
		return &PropRes{OK: false, Why: fmt.Sprintf("expected an error, got %v", impl)}
	case *big.Int:
		if impl["ok"] == w.String() {
			return &PropRes{OK: true}
		}
		return &PropRes{OK: false, Why: fmt.Sprintf("expected %v, got %v", w, impl)}
	}
	return &PropRes{OK: true}
}

func (g *c04gen) intValueAllTypes(hs HSpec, v *big.Int, spell []string, extraTags ...string) {
	sp := intSpellings(v, g.r)
	for _, dt := range intTypes {
		lo, hi := stmtRange(dt, hs.Prime)
		var want any = "err"
		if v.Cmp(lo) >= 0 && v.Cmp(hi) <= 0 {
			want = stmtEncInt(v, hs.Prime)
		}
		for _, name := range spell {
			lex, ok := sp[name]
			if !ok {
				continue
			}
			g.lexCase(hs, dt, lex, want, append(extraTags, "sp:"+name)...)
		}
	}
}

func (g *c04gen) goTypedInt(hs HSpec, v *big.Int) {
	dt := g.r.Pick(intTypes)
	lo, hi := stmtRange(dt, hs.Prime)
	var want any = "err"
	if v.Cmp(lo) >= 0 && v.Cmp(hi) <= 0 {
		want = stmtEncInt(v, hs.Prime)
	}
	full := xsdNS + dt
	emit := func(val any, vj J, tag string) {
		impl := implHash(hs.H, full, val)
		g.out.Emit(Case{Op: "xsd.hash", In: J{"h": hs.JSON, "dt": full, "val": vj}, Impl: impl, Prop: judge(impl, want),
			Tags: []string{"dt:" + dt, "h:" + hs.Name, "go:" + tag}, NT: true})
	}
	if v.IsInt64() {
		i := v.Int64()
		emit(i, J{"k": "int", "v": v.String()}, "int64")
		if i >= math.MinInt32 && i <= math.MaxInt32 {
			emit(int32(i), J{"k": "int", "v": v.String()}, "int32")
			emit(int(i), J{"k": "int", "v": v.String()}, "int")
		}
		if i >= -128 && i <= 127 {
			emit(int8(i), J{"k": "int", "v": v.String()}, "int8")
		}
		// float64 when exactly representable
		f := float64(i)
		if f < 9.2e18 && f > -9.2e18 && int64(f) == i {
			// the float64 is exactly this integer (whatever its 16-digit canonical double shows)
			emit(f, f64J(f), "float64")
		} else if f < 9.2e18 && f > -9.2e18 {
			// the nearest float64 is another integer: that integer is what the value means
			i2 := big.NewInt(int64(f))
			var want2 any = "err"
			if i2.Cmp(lo) >= 0 && i2.Cmp(hi) <= 0 {
				want2 = stmtEncInt(i2, hs.Prime)
			}
			impl := implHash(hs.H, full, f)
			g.out.Emit(Case{Op: "xsd.hash", In: J{"h": hs.JSON, "dt": full, "val": f64J(f)}, Impl: impl, Prop: judge(impl, want2),
				Tags: []string{"dt:" + dt, "h:" + hs.Name, "go:float64", "float64-rounded"}, NT: true})
		}
	}
	emit(v.String(), J{"k": "str", "v": v.String()}, "string")
	if !v.IsInt64() {
		// a float64 outside int64 that is exactly this integer: the standalone API (like the RDF conversion) goes through the
		// 16-digit canonical double, which denotes another integer when v needs more digits (known finding F7)
		if f, acc := new(big.Float).SetInt(v).Float64(); acc == big.Exact && !math.IsInf(f, 0) {
			impl := implHash(hs.H, full, f)
			tg := []string{"dt:" + dt, "h:" + hs.Name, "go:float64", "float64-beyond-int64"}
			if !canonDenotes(ld.GetCanonicalDouble(f), v) {
				tg = append(tg, "shape:float64-beyond-int64-needs-more-than-16-digits")
			}
			g.out.Emit(Case{Op: "xsd.hash", In: J{"h": hs.JSON, "dt": full, "val": f64J(f)}, Impl: impl, Prop: judge(impl, want), Tags: tg, NT: true})
		}
	}
	if v.IsUint64() {
		// unsigned Go types are unsupported outside xsd:double
		impl := implHash(hs.H, full, v.Uint64())
		g.out.Emit(Case{Op: "xsd.hash", In: J{"h": hs.JSON, "dt": full, "val": J{"k": "uint", "v": v.String()}}, Impl: impl,
			Prop: judge(impl, "err"), Tags: []string{"dt:" + dt, "h:" + hs.Name, "go:uint64"}, NT: true})
	}
}

func boundaryInts(p *big.Int, r *Rng) []*big.Int {
	half := new(big.Int).Rsh(new(big.Int).Sub(p, big.NewInt(1)), 1)
	base := []*big.Int{big.NewInt(0), new(big.Int).Set(half), new(big.Int).Neg(half), new(big.Int).Set(p), new(big.Int).Neg(p)}
	var out []*big.Int
	for _, b := range base {
		for d := int64(-2); d <= 2; d++ {
			out = append(out, new(big.Int).Add(b, big.NewInt(d)))
		}
	}
	for i := 0; i < 6; i++ {
		x := r.BigBelow(new(big.Int).Lsh(p, 1))
		x.Sub(x, p)
		out = append(out, x)
	}
	return out
}

var malformedInts = []string{"0x10", "0X1F", "+0x10", "-0x1", "0b11", "0B1", "0o17", "0O7", "0x1p4", "0x.8p1", "1p4", "4/2", "1/1", "0/5", "1_000", "0_1", "1_0e1", "1e1_0",
	"", " ", "abc", "1.5", "-0.5", "1e-1", "15e-1", ".", "-", "+", "1e", "1e+", "e5", "--1", "1 ", " 1",
	"1,0", "١", "1.0.0", "1e1.0", "NaN", "Inf", "-.5", "3.0000001", "12e-3", "100e-3"}
var oddButIntegral = []string{".0", "-.0", "5.", "+5.", "0e99", "-0", "+0", "0.000", "1000e-3", "25e-1e0"}

// several integer literals in one dataset: each is judged on its own (range and encoding do not depend on what else the
// dataset holds, nor on the order in which the literals are visited)
func (g *c04gen) datasetSequence(hs HSpec) {
	r := g.r
	ds := ld.NewRDFDataset()
	k := 2 + r.Intn(5)
	var qs []*ld.Quad
	allOK := true
	var wants []*big.Int
	for i := 0; i < k; i++ {
		dt := r.Pick(intTypes)
		lo, hi := stmtRange(dt, hs.Prime)
		var v *big.Int
		switch r.Intn(8) {
		case 0:
			v = new(big.Int).Set(lo)
		case 1, 2:
			v = new(big.Int).Set(hi)
		case 3:
			v = new(big.Int).Sub(hi, big.NewInt(int64(r.Intn(3))))
		case 4:
			v = new(big.Int).Add(lo, big.NewInt(int64(r.Intn(3))))
		case 5:
			if r.Chance(40) {
				v = new(big.Int).Add(hi, big.NewInt(1)) // out of range
			} else {
				v = new(big.Int).Sub(lo, big.NewInt(1))
			}
		default:
			v = new(big.Int).Add(lo, r.BigBelow(new(big.Int).Add(new(big.Int).Sub(hi, lo), big.NewInt(1))))
		}
		if v.Cmp(lo) < 0 || v.Cmp(hi) > 0 {
			allOK = false
		}
		wants = append(wants, stmtEncInt(v, hs.Prime))
		qs = append(qs, &ld.Quad{Subject: ld.NewIRI("urn:a"), Predicate: ld.NewIRI(fmt.Sprintf("urn:p%d", i)), Object: ld.NewLiteral(v.String(), xsdNS+dt, "")})
	}
	ds.Graphs["@default"] = qs
	dsJ, canon := datasetJ(ds)
	c := Case{Op: "rdf.entries", In: J{"h": hs.JSON, "ds": dsJ, "canon": canon}, Tags: []string{"dataset-sequence", "h:" + hs.Name, fmt.Sprintf("all-in-range:%v", allOK)}, NT: true}
	ents, err := guard(5*time.Second, func() ([]merklize.RDFEntry, error) {
		es, e := merklize.EntriesFromRDFWithHasher(ds, hs.H)
		if e == nil && es == nil {
			es = []merklize.RDFEntry{}
		}
		return es, e
	})
	var why []string
	if err != nil {
		c.Impl = errJ(err)
		if allOK {
			why = append(why, "every literal of the dataset is inside its type's range, but the dataset is rejected: "+err.Error())
		}
	} else {
		ej := make([]any, len(ents))
		for i, e := range ents {
			ej[i] = entryJ(e)
		}
		c.Impl = okJ(ej)
		if !allOK {
			why = append(why, "a literal outside its type's range was accepted")
		} else if len(ents) != len(wants) {
			why = append(why, fmt.Sprintf("%d literals, %d entries", len(wants), len(ents)))
		} else {
			for i, e := range ents {
				vh, verr := e.ValueMtEntry()
				if verr != nil || vh.Cmp(wants[i]) != 0 {
					why = append(why, fmt.Sprintf("literal %d encodes as %v (%v), expected %v", i, vh, verr, wants[i]))
				}
			}
		}
	}
	c.Prop = propOf(why)
	g.out.Emit(c)
}

// replayReordered repeats a sample of the hashing calls of the run in a shuffled order (hashers interleaved) and
// requires the same result: no state may be carried from one call to another.
func (g *c04gen) replayReordered(log []hashRec) {
	const max = 4000
	perm := g.r.Perm(len(log))
	if len(perm) > max {
		perm = perm[:max]
	}
	bad := 0
	for _, i := range perm {
		rec := log[i]
		b, _ := json.Marshal(implHash0(rec.h, rec.dt, rec.v))
		if string(b) != rec.impl && bad < 5 {
			bad++
			g.out.Emit(Case{Op: "none", In: J{"dt": rec.dt, "val": fmt.Sprint(rec.v), "prime": rec.h.Prime().String()}, Impl: J{"first": rec.impl, "later": string(b)},
				Prop: &PropRes{OK: false, Why: fmt.Sprintf("HashValue(%s, %v) under prime %v gave %s first and %s when repeated later in the same process, after other hashers had been used", rec.dt, rec.v, rec.h.Prime(), rec.impl, string(b))},
				Tags: []string{"reordered-replay"}, NT: true})
		}
	}
	if bad == 0 {
		g.out.Emit(Case{Op: "none", In: J{"replayed": len(perm)}, Impl: J{}, Prop: &PropRes{OK: true}, Tags: []string{"reordered-replay"}, NT: true})
	}
}

// restored: the value encodings of a merklizer restored from its binary form (same hasher) are those of the statement
func (g *c04gen) restored() {
	doc := []byte(`{"@context":{"xsd":"http://www.w3.org/2001/XMLSchema#","ex":"urn:ex:","b":{"@id":"ex:b","@type":"xsd:boolean"},"n":{"@id":"ex:n","@type":"xsd:integer"},` +
		`"m":{"@id":"ex:m","@type":"xsd:nonPositiveInteger"},"t":{"@id":"ex:t","@type":"xsd:dateTime"},"s":{"@id":"ex:s","@type":"xsd:string"},"d":{"@id":"ex:d","@type":"xsd:double"},"u":{"@id":"ex:u","@type":"xsd:int"}},` +
		`"@id":"urn:x","b":true,"n":-5,"m":"-7","t":"1931-05-06T07:08:09.000000001+05:30","s":"text","d":1.5,"u":"12"}`)
	for _, hs := range []HSpec{hSmall(65537), hSalted(), hSmall(2305843009213693951), hShifted(), hPoseidon()} {
		var why []string
		run := runMerklize(doc, hs, &mapLoader{docs: map[string][]byte{}}, true)
		if run.Err != nil {
			g.out.Emit(Case{Op: "none", In: J{"h": hs.JSON}, Impl: errJ(run.Err), Prop: &PropRes{OK: false, Why: "restored-stage document does not merklize: " + run.Err.Error()}, Tags: []string{"restored"}, NT: true})
			continue
		}
		bs, err := run.Mz.MarshalBinary()
		var mz2 *merklize.Merklizer
		if err == nil {
			mz2, err = merklize.MerklizerFromBytes(bs, merklize.WithHasher(hs.H), merklize.WithDocumentLoader(&mapLoader{docs: map[string][]byte{}}))
		}
		if err != nil {
			why = append(why, "binary round trip fails: "+err.Error())
		} else {
			n := 0
			for _, e := range mz2.VerifEntries() {
				want, werr := valueHash(hs, e.VerifValue())
				got, gerr := e.ValueMtEntry()
				if werr == nil && (gerr != nil || got.Cmp(want) != 0) {
					why = append(why, fmt.Sprintf("restored entry %v (%s) encodes as %v (%v), the statement's encoding under this hasher is %v", e.VerifKeyParts(), e.VerifDatatype(), got, gerr, want))
				}
				n++
			}
			if n != len(run.Mz.VerifEntries()) {
				why = append(why, fmt.Sprintf("%d entries restored, %d merklized", n, len(run.Mz.VerifEntries())))
			}
		}
		g.out.Emit(Case{Op: "none", In: J{"h": hs.JSON, "doc": string(doc)}, Impl: J{}, Prop: propOf(why), Tags: []string{"restored", "h:" + hs.Name}, NT: true})
	}
}

func (g *c04gen) run(tier string, n int) {
	if g.shard == 0 {
		g.restored()
	}
	var log []hashRec
	hashLog = &log
	defer func() {
		hashLog = nil
		g.replayReordered(log)
	}()
	for i := 0; i < n/3+20; i++ {
		g.datasetSequence([]HSpec{hPoseidon(), hSmall(251), hSmall(65537), hSalted(), hSmall(2305843009213693951)}[g.r.Intn(5)])
	}
	smallPrimes := []int64{3, 5, 7, 251}
	if g.shard != 0 {
		smallPrimes = nil // the enumeration is deterministic: one shard runs it
	}
	// (1) whole-field enumeration for small primes
	for _, p := range smallPrimes {
		hs := hSmall(p)
		spell := []string{"dec", "dot0", "sci", "plus"}
		for v := -2 * p; v <= 2*p; v++ {
			g.intValueAllTypes(hs, big.NewInt(v), spell, "enum")
		}
	}
	// (2) boundaries for all primes, all spellings
	hss := []HSpec{hSmall(3), hSmall(251), hSmall(65537), hSmall(2305843009213693951), hPoseidon(), hSalted()}
	reps := 1
	if tier == "thorough" {
		reps = 20
	}
	for rep := 0; rep < reps; rep++ {
		for _, hs := range hss {
			for _, v := range boundaryInts(hs.Prime, g.r) {
				g.intValueAllTypes(hs, v, []string{"dec", "dot0", "e0", "lead0", "plus", "sci", "scineg"}, "boundary")
				g.goTypedInt(hs, v)
			}
			for _, s := range malformedInts {
				g.lexCase(hs, g.r.Pick(intTypes), s, "err", "malformed")
			}
			for _, s := range oddButIntegral {
				g.lexCase(hs, g.r.Pick(intTypes), s, nil, "odd-integral")
			}
		}
	}
	// int64/float64 magnitudes where the float path matters
	for _, hs := range []HSpec{hPoseidon(), hSmall(2305843009213693951)} {
		for _, s := range []string{"9007199254740991", "9007199254740992", "9007199254740993", "-9007199254740993", "9223372036854775807",
			"-9223372036854775808", "18446744073709551615", "1000000000000000000000", "123456789012345678", "999999999999999", "1e21", "1.5e3",
			"18446744073709551616", "9223372036854775808", "-18446744073709551616", "10000000000000000000", "1180591620717411303424", "-9223372036854777856",
			"1152921504606846976", "12345678901234568", "-1152921504606846976", "4611686018427387904"} {
			v, ok := new(big.Int).SetString(s, 10)
			if ok {
				g.goTypedInt(hs, v)
			} else {
				g.lexCase(hs, "integer", s, nil, "sci-lex")
			}
		}
	}
	// (3) booleans
	for _, hs := range []HSpec{hSmall(3), hPoseidon(), hSmall(5), hShifted(), hSmall(251), hSalted(), hSmall(7), hSmall(65537), hSmall(2305843009213693951), hSmall(3)} {
		h1, _ := hs.H.Hash([]*big.Int{big.NewInt(1)})
		h0, _ := hs.H.Hash([]*big.Int{big.NewInt(0)})
		for _, s := range []string{"true", "1", "1.0E0"} {
			g.lexCase(hs, "boolean", s, h1, "bool")
		}
		for _, s := range []string{"false", "0", "0.0E0"} {
			g.lexCase(hs, "boolean", s, h0, "bool")
		}
		for _, s := range []string{"TRUE", "True", "yes", "2", "", " true", "true ", "0.0", "1.0", "01", "-0", "1e0", "False", "t", "null"} {
			g.lexCase(hs, "boolean", s, "err", "bool", "malformed")
		}
		full := xsdNS + "boolean"
		for _, tc := range []struct {
			v    any
			j    J
			want any
		}{{true, J{"k": "bool", "v": true}, h1}, {false, J{"k": "bool", "v": false}, h0},
			{float64(1), f64J(1), h1}, {float64(0), f64J(0), h0},
			{int64(1), J{"k": "int", "v": "1"}, h1}, {int(0), J{"k": "int", "v": "0"}, h0}, {int64(2), J{"k": "int", "v": "2"}, "err"},
			{"true", J{"k": "str", "v": "true"}, h1}, {float64(2), f64J(2), "err"}, {float64(0.5), f64J(0.5), "err"}, {math.Copysign(0, -1), f64J(math.Copysign(0, -1)), h0}} {
			impl := implHash(hs.H, full, tc.v)
			g.out.Emit(Case{Op: "xsd.hash", In: J{"h": hs.JSON, "dt": full, "val": tc.j}, Impl: impl, Prop: judge(impl, tc.want),
				Tags: []string{"dt:boolean", "h:" + hs.Name, "go-typed"}, NT: true})
		}
	}
	// (3b) values as they reach a tree: batches of entries whose spellings coincide across kinds
	for i := 0; i < n/3+20; i++ {
		g.treeBatch()
	}
	// (4) dateTime
	g.times(tier, n)
	// (5) double and other types
	g.doublesAndStrings(tier, n)
}

func (g *c04gen) times(tier string, n int) {
	hss := []HSpec{hPoseidon(), hSmall(2305843009213693951), hSmall(65537)}
	years := []int{0, 1, 4, 100, 400, 1582, 1899, 1900, 1969, 1970, 1971, 1999, 2000, 2001, 2024, 2038, 2100, 2262, 2263, 9999}
	offs := []int{0, 15, 30, 45, 60, 330, 345, 765, 840, 1439, -15, -60, -210, -720, -1439}
	cnt := n
	for i := 0; i < cnt; i++ {
		hs := hss[g.r.Intn(len(hss))]
		y := years[g.r.Intn(len(years))]
		if g.r.Chance(30) {
			y = g.r.Intn(10000)
		}
		mo := 1 + g.r.Intn(12)
		d := 1 + g.r.Intn(31)
		if g.r.Chance(15) {
			mo, d = 2, 28+g.r.Intn(2)
		}
		if g.r.Chance(10) {
			mo, d = 12, 31
		}
		if g.r.Chance(10) {
			mo, d = 1, 1
		}
		hh, mi, ss := g.r.Intn(24), g.r.Intn(60), g.r.Intn(60)
		if g.r.Chance(20) {
			hh, mi, ss = 0, 0, 0
		}
		if g.r.Chance(10) {
			hh, mi, ss = 23, 59, 59
		}
		nd := g.r.Intn(13)
		frac := ""
		for k := 0; k < nd; k++ {
			frac += strconv.Itoa(g.r.Intn(10))
		}
		valid := d <= daysInMonth(y, mo)
		// the same civil time written with a zone; expected from the Go standard library directly
		off := offs[g.r.Intn(len(offs))]
		if g.r.Chance(20) {
			off = g.r.Intn(2879) - 1439
		}
		zone := "Z"
		if off != 0 || g.r.Chance(30) {
			sg := "+"
			a := off
			if off < 0 {
				sg, a = "-", -off
			}
			zone = fmt.Sprintf("%s%02d:%02d", sg, a/60, a%60)
		}
		lex := fmt.Sprintf("%04d-%02d-%02dT%02d:%02d:%02d", y, mo, d, hh, mi, ss)
		if nd > 0 {
			lex += "." + frac
		}
		lex += zone
		var want any = "err"
		if valid {
			ns := 0
			if nd > 0 {
				f9 := (frac + "000000000")[:9]
				ns, _ = strconv.Atoi(f9)
			}
			t := time.Date(y, time.Month(mo), d, hh, mi, ss, ns, time.UTC).Add(-time.Duration(off) * time.Minute)
			x := new(big.Int).Mul(big.NewInt(t.Unix()), big.NewInt(1_000_000_000))
			x.Add(x, big.NewInt(int64(t.Nanosecond())))
			x.Mod(x, hs.Prime)
			want = x
		}
		tags := []string{"time", fmt.Sprintf("fracdigits:%d", nd)}
		if off != 0 {
			tags = append(tags, "offset")
		}
		if !valid {
			tags = append(tags, "malformed", "bad-day")
		}
		g.lexCase(hs, "dateTime", lex, want, tags...)
		// the same instant re-written in UTC must hash identically (offset independence)
		if valid && off != 0 {
			ns := 0
			if nd > 0 {
				ns, _ = strconv.Atoi((frac + "000000000")[:9])
			}
			t := time.Date(y, time.Month(mo), d, hh, mi, ss, ns, time.UTC).Add(-time.Duration(off) * time.Minute)
			if t.Year() >= 0 && t.Year() <= 9999 {
				g.lexCase(hs, "dateTime", t.Format("2006-01-02T15:04:05.999999999Z07:00"), want, "time", "utc-respelling")
			}
		}
		// bare date
		if g.r.Chance(40) {
			lexd := fmt.Sprintf("%04d-%02d-%02d", y, mo, d)
			var wd any = "err"
			if valid {
				t := time.Date(y, time.Month(mo), d, 0, 0, 0, 0, time.UTC)
				x := new(big.Int).Mul(big.NewInt(t.Unix()), big.NewInt(1_000_000_000))
				x.Mod(x, hs.Prime)
				wd = x
			}
			g.lexCase(hs, "dateTime", lexd, wd, "time", "bare-date")
		}
	}
	for _, s := range []string{"", "2020", "2020-01", "2020-1-01", "01-02-2006", "2020-13-01", "2020-00-10", "2020-01-00", "2020-02-30", "2021-02-29",
		"2020-01-01T24:00:00Z", "2020-01-01T00:60:00Z", "2020-01-01T00:00:60Z", "2020-01-01T00:00:00", "2020-01-01 00:00:00Z", "2020-01-01t00:00:00Z",
		"2020-01-01T00:00:00z", "2020-01-01T00:00:00+0100", "2020-01-01T00:00:00+01", "2020-01-01T00:00:00.Z", "2020-01-01T00:00:00Z ", " 2020-01-01",
		"20200101", "2020-01-01Z", "12020-01-01T00:00:00Z", "x", "2020-01-01T00:00:00+1:00", "2020-01-01T00:00Z"} {
		g.lexCase(hPoseidon(), "dateTime", s, "err", "time", "malformed")
	}
	// Go-typed: strings only are natural; a float64 for dateTime is ill-formed
	impl := implHash(hPoseidon().H, xsdNS+"dateTime", 5.0)
	g.out.Emit(Case{Op: "xsd.hash", In: J{"h": "poseidon", "dt": xsdNS + "dateTime", "val": f64J(5.0)}, Impl: impl,
		Prop: judge(impl, "err"), Tags: []string{"time", "go-typed", "malformed"}, NT: true})
}

// the canonical double spelling denotes exactly the integer v (the code's precision guard, restated with big.Float)
func canonDenotes(c string, v *big.Int) bool {
	bf, _, err := big.ParseFloat(c, 10, 2000, big.ToNearestEven)
	if err != nil {
		return false
	}
	if !bf.IsInt() {
		return false
	}
	x, _ := bf.Int(nil)
	return x.Cmp(v) == 0
}

func daysInMonth(y, m int) int {
	return time.Date(y, time.Month(m)+1, 0, 0, 0, 0, 0, time.UTC).Day()
}

func (g *c04gen) doublesAndStrings(tier string, n int) {
	hss := []HSpec{hPoseidon(), hSalted(), hSmall(65537)}
	dbl := []string{"0", "-0", "1", "1.5", "-1.5", "1e10", "1E-7", "123456789.123456789", "0.1", "5e-324", "1.7976931348623157e308", "1e400",
		"NaN", "Inf", "-Inf", "abc", "", "0x10", "1_0", "+3", ".5", "5.", "1e", "9007199254740993", "3.14159", "100", "1.0E0", "2.5E-1", " 1"}
	for _, hs := range hss {
		for _, s := range dbl {
			var want any = "err"
			tags := []string{"double"}
			if c, ok := canonOf(s).(string); ok {
				want, _ = hs.H.HashBytes([]byte(c))
				if canonOf(c) == nil {
					tags = append(tags, "shape:double-canon-overflow")
				}
			}
			g.lexCase(hs, "double", s, want, tags...)
		}
		full := xsdNS + "double"
		for i := 0; i < n/10+5; i++ {
			f := math.Float64frombits(g.r.U64())
			if g.r.Chance(50) {
				f = float64(int64(g.r.U64()>>uint(g.r.Intn(60)))) / math.Pow10(g.r.Intn(6))
			}
			if math.IsNaN(f) || math.IsInf(f, 0) {
				continue
			}
			c := ld.GetCanonicalDouble(f)
			want, _ := hs.H.HashBytes([]byte(c))
			impl := implHash(hs.H, full, f)
			g.out.Emit(Case{Op: "xsd.hash", In: J{"h": hs.JSON, "dt": full, "val": f64J(f), "canon": canonTable(c)}, Impl: impl,
				Prop: judge(impl, want), Tags: []string{"dt:double", "h:" + hs.Name, "go:float64"}, NT: true})
		}
		// integers given for xsd:double: exact or error
		for _, s := range []string{"0", "1", "-1", "9007199254740992", "9007199254740993", "9223372036854775807", "-9223372036854775808",
			"18446744073709551615", "18446744073709551614", "4611686018427387904", "123456789"} {
			v, _ := new(big.Int).SetString(s, 10)
			bf := new(big.Float).SetInt(v)
			f, _ := bf.Float64()
			var want any = "err"
			c := ld.GetCanonicalDouble(f)
			if canonDenotes(c, v) {
				want, _ = hs.H.HashBytes([]byte(c))
			}
			if v.IsInt64() {
				impl := implHash(hs.H, full, v.Int64())
				g.out.Emit(Case{Op: "xsd.hash", In: J{"h": hs.JSON, "dt": full, "val": J{"k": "int", "v": s}, "canonInt": ld.GetCanonicalDouble(float64(v.Int64())),
					"canon": canonTable(ld.GetCanonicalDouble(float64(v.Int64())))}, Impl: impl, Prop: judge(impl, want),
					Tags: []string{"dt:double", "h:" + hs.Name, "go:int64"}, NT: true})
			}
			if v.IsUint64() {
				impl := implHash(hs.H, full, v.Uint64())
				g.out.Emit(Case{Op: "xsd.hash", In: J{"h": hs.JSON, "dt": full, "val": J{"k": "uint", "v": s}, "canonInt": ld.GetCanonicalDouble(float64(v.Uint64())),
					"canon": canonTable(ld.GetCanonicalDouble(float64(v.Uint64())))}, Impl: impl, Prop: judge(impl, want),
					Tags: []string{"dt:double", "h:" + hs.Name, "go:uint64"}, NT: true})
			}
		}
		// the narrower Go integer types under xsd:double: the same number, the same encoding (predicate only)
		for _, tc := range []struct {
			v any
			n int64
		}{{int8(-7), -7}, {int16(300), 300}, {int32(-70000), -70000}, {int(12), 12}, {uint8(200), 200}, {uint16(65535), 65535}, {uint32(4000000000), 4000000000}, {uint(5), 5}, {int8(0), 0}} {
			want, _ := hs.H.HashBytes([]byte(ld.GetCanonicalDouble(float64(tc.n))))
			impl := implHash0(hs.H, full, tc.v)
			g.out.Emit(Case{Op: "none", In: J{"dt": full, "val": fmt.Sprintf("%T %v", tc.v, tc.v)}, Impl: impl, Prop: judge(impl, want), Tags: []string{"dt:double", "h:" + hs.Name, "go:narrow-int"}, NT: true})
		}
		// Go types the standalone API does not take for the other datatypes are refused, not guessed at; narrow signed ones are numbers
		for _, tc := range []struct {
			v    any
			want any
		}{{uint64(5), "err"}, {uint8(5), "err"}, {uint32(5), "err"}, {[]byte("5"), "err"}, {nil, "err"}, {int16(-5), stmtEncInt(big.NewInt(-5), hs.Prime)}, {int8(5), big.NewInt(5)}} {
			if w, isInt := tc.want.(*big.Int); isInt {
				lo, hi := stmtRange("integer", hs.Prime)
				if x := big.NewInt(-5); tc.v == any(int16(-5)) && (x.Cmp(lo) < 0 || x.Cmp(hi) > 0) {
					tc.want = "err"
				} else if tc.v == any(int8(5)) && w.Cmp(hi) > 0 {
					tc.want = "err"
				}
			}
			impl := implHash0(hs.H, xsdNS+"integer", tc.v)
			g.out.Emit(Case{Op: "none", In: J{"dt": "integer", "val": fmt.Sprintf("%T %v", tc.v, tc.v)}, Impl: impl, Prop: judge(impl, tc.want), Tags: []string{"dt:integer", "h:" + hs.Name, "go:other-types"}, NT: true})
		}
		// doubles spelled in the *shape* of the canonical form without being it (too many digits, a mantissa no float64 has, a
		// mantissa below one, exponents beyond the range): the value decides, or it is an error
		for _, lexd := range []string{"1.2345678901234567E0", "9.007199254740993E15", "0.5E1", "10.0E0", "1.0E999", "1.0E-999", "1.50E0", "1.5E00", "1.5E+0", "-0.0E0", "1.0E0"} {
			var wantd any = "err"
			if f, err := strconv.ParseFloat(lexd, 64); err == nil {
				wantd, _ = hs.H.HashBytes([]byte(ld.GetCanonicalDouble(f)))
			}
			g.lexCase(hs, "double", lexd, wantd, "canonical-shape")
		}
		// other datatypes: hash of the string
		for _, dt := range []string{"string", "anyURI", "date", "unknownType", "float", "decimal", "int", "long"} {
			for _, s := range []string{"a", "hello world", "1", "true", "2020-01-01", strings.Repeat("x", 31), strings.Repeat("y", 32),
				strings.Repeat("z", 31*16), strings.Repeat("w", 31*16+1), "ünï©ödé ✓", "line\nbreak\ttab", "\"quoted\"\\"} {
				want, _ := hs.H.HashBytes([]byte(s))
				g.lexCase(hs, dt, s, want, "other")
			}
		}
		// a datatype outside the XSD namespace, and the empty datatype
		for _, full2 := range []string{"", "http://example.com/custom", "http://www.w3.org/1999/02/22-rdf-syntax-ns#langString"} {
			s := "some text"
			want, _ := hs.H.HashBytes([]byte(s))
			impl := implHash(hs.H, full2, s)
			g.out.Emit(Case{Op: "xsd.hash", In: J{"h": hs.JSON, "dt": full2, "lex": s}, Impl: impl, Prop: judge(impl, want),
				Tags: []string{"dt:foreign", "h:" + hs.Name}, NT: true})
		}
	}
	// unsupported Go types
	for _, v := range []any{[]int{1}, map[string]any{}, nil, struct{}{}, uint8(3)} {
		impl := implHash(hPoseidon().H, xsdNS+"string", v)
		g.out.Emit(Case{Op: "xsd.hash", In: J{"h": "poseidon", "dt": xsdNS + "string", "val": J{"k": "other"}}, Impl: impl,
			Prop: judge(impl, "err"), Tags: []string{"go:unsupported", "malformed"}, NT: true})
	}
}

// ---------- values as they reach a tree ----------

// recTree is a tree that only remembers what it is given
type recTree struct{ keys, vals []*big.Int }

func (t *recTree) Add(_ context.Context, k, v *big.Int) error {
	if k == nil || v == nil {
		return fmt.Errorf("nil key or value")
	}
	t.keys = append(t.keys, new(big.Int).Set(k))
	t.vals = append(t.vals, new(big.Int).Set(v))
	return nil
}

// one value of a batch: what it is (Go value or typed literal), under which hasher, and the statement's encoding of it
type batchItem struct {
	hs    HSpec
	val   any    // hand-made entries: the Go value given to NewRDFEntry
	dt    string // dataset entries: the literal's datatype (full IRI); "" for hand-made ones
	lex   string // dataset entries: the literal's lexical form
	want  any    // *big.Int, or "err" (outside every integer range)
	desc  string
	entry merklize.RDFEntry
}

// the statement's encodings, computed with math/big and the hasher's two primitives only
func stmtEncBool(hs HSpec, b bool) *big.Int {
	x := int64(0)
	if b {
		x = 1
	}
	h, _ := hs.H.Hash([]*big.Int{big.NewInt(x)})
	return h
}

func stmtEncStr(hs HSpec, s string) *big.Int {
	h, _ := hs.H.HashBytes([]byte(s))
	return h
}

func stmtEncTime(hs HSpec, t time.Time) *big.Int {
	x := new(big.Int).Mul(big.NewInt(t.Unix()), big.NewInt(1_000_000_000))
	x.Add(x, big.NewInt(int64(t.Nanosecond())))
	return x.Mod(x, hs.Prime)
}

// an integer without a datatype: inside [-(p-1)/2, (p-1)/2] every integer type that admits its sign encodes it as v / p+v;
// at p or above, and below -(p-1)/2, it is outside every type's range. What lies between is not generated.
func stmtEncUntypedInt(hs HSpec, v *big.Int) any {
	lo, hi := stmtRange("integer", hs.Prime)
	if v.Cmp(lo) >= 0 && v.Cmp(hi) <= 0 {
		return stmtEncInt(v, hs.Prime)
	}
	return "err"
}

func (g *c04gen) batchInt(hs HSpec, oor bool) *big.Int {
	r := g.r
	lo, hi := stmtRange("integer", hs.Prime)
	if oor {
		if r.Bool() {
			return new(big.Int).Add(hs.Prime, big.NewInt(int64(r.Intn(50))))
		}
		return new(big.Int).Sub(lo, big.NewInt(int64(1+r.Intn(50))))
	}
	var v *big.Int
	switch r.Intn(6) {
	case 0:
		v = big.NewInt(int64(r.Intn(3)))
	case 1:
		v = big.NewInt(int64(r.Intn(200)) - 100)
	case 2:
		v = new(big.Int).Sub(hi, big.NewInt(int64(r.Intn(3))))
	case 3:
		v = new(big.Int).Add(lo, big.NewInt(int64(r.Intn(3))))
	case 4:
		v = big.NewInt(int64(r.U64()>>uint(1+r.Intn(62))) * int64(1-2*r.Intn(2)))
	default:
		v = new(big.Int).Add(lo, r.BigBelow(new(big.Int).Add(new(big.Int).Sub(hi, lo), big.NewInt(1))))
	}
	if v.Cmp(lo) < 0 || v.Cmp(hi) > 0 {
		v = big.NewInt(int64(r.Intn(3)) - 1)
		if v.Cmp(lo) < 0 || v.Cmp(hi) > 0 {
			v = big.NewInt(0)
		}
	}
	return v
}

func (g *c04gen) batchTime() time.Time {
	r := g.r
	y := []int{1, 1677, 1969, 1970, 1971, 2000, 2024, 2038, 2262, 2263, 9999}[r.Intn(11)]
	if r.Chance(50) {
		y = 1 + r.Intn(9999)
	}
	ns := 0
	if r.Chance(60) {
		ns = r.Intn(1_000_000_000)
		if r.Chance(40) {
			ns = ns / 1_000_000 * 1_000_000
		}
	}
	loc := time.UTC
	if r.Chance(50) {
		loc = time.FixedZone("", (r.Intn(1679)-839)*60)
	}
	return time.Date(y, time.Month(1+r.Intn(12)), 1+r.Intn(28), r.Intn(24), r.Intn(60), r.Intn(60), ns, loc)
}

// Go integer carriers of one value
func intCarriers(v *big.Int, r *Rng) []any {
	out := []any{new(big.Int).Set(v)}
	if v.IsInt64() {
		out = append(out, v.Int64())
		if i := v.Int64(); int64(int(i)) == i {
			out = append(out, int(i))
		}
	}
	p := r.Perm(len(out))
	res := make([]any, len(out))
	for i, j := range p {
		res[i] = out[j]
	}
	return res
}

// treeBatch: the element stored for a value is the statement's encoding of that value - whatever else goes into the tree in the
// same call, in whatever order. A batch holds values of different kinds whose spellings coincide (the boolean true and the
// string "true", the integer 42 in its Go carriers and the string "42", an instant, the strings that print it and the integer
// of its nanoseconds, the same things as typed literals of a dataset), made by hand (NewRDFEntry, with and without options)
// or taken from a dataset, possibly under two hashers. Every entry on its own, the stand-alone Value, what AddEntriesToMerkleTree
// hands to the tree, and a proof from a real tree must all show the statement's encoding; an integer outside every range must
// make the entry and the whole call fail.
func (g *c04gen) treeBatch() {
	r := g.r
	all := []HSpec{hPoseidon(), hSalted(), hShifted(), hSmall(251), hSmall(65537), hSmall(2305843009213693951)}
	hs1 := all[r.Intn(len(all))]
	hs2 := hs1
	if r.Chance(25) {
		hs2 = all[r.Intn(len(all))]
	}
	pickH := func() HSpec {
		if r.Chance(35) {
			return hs2
		}
		return hs1
	}
	var items []batchItem
	hand := func(hs HSpec, v any, want any) {
		items = append(items, batchItem{hs: hs, val: v, want: want, desc: fmt.Sprintf("%T %v", v, v)})
	}
	lit := func(hs HSpec, dt, lex string, want any) {
		items = append(items, batchItem{hs: hs, dt: xsdNS + dt, lex: lex, want: want, desc: fmt.Sprintf("%q^^xsd:%s", lex, dt)})
	}
	// the same text as a string, by hand and/or as a literal
	str := func(hs HSpec, s string) {
		if r.Chance(75) {
			hand(hs, s, stmtEncStr(hs, s))
		}
		if r.Chance(30) {
			lit(hs, r.Pick([]string{"string", "anyURI", "token"}), s, stmtEncStr(hs, s))
		}
	}
	hasOOR := false
	groups := 1 + r.Intn(4)
	for gi := 0; gi < groups; gi++ {
		hs := pickH()
		twins := r.Chance(80)
		switch r.Intn(5) {
		case 0: // boolean
			b := r.Bool()
			if r.Chance(80) {
				hand(hs, b, stmtEncBool(hs, b))
			}
			if r.Chance(30) {
				lit(hs, "boolean", fmt.Sprint(b), stmtEncBool(hs, b))
			}
			if twins {
				str(pickH(), fmt.Sprint(b))
				if r.Chance(30) {
					x := int64(0)
					if b {
						x = 1
					}
					h := pickH()
					hand(h, x, stmtEncUntypedInt(h, big.NewInt(x)))
				}
			}
		case 1, 2: // integer
			oor := r.Chance(12)
			v := g.batchInt(hs, oor)
			cs := intCarriers(v, r)
			k := 1 + r.Intn(len(cs))
			for _, c := range cs[:k] {
				h := hs
				if !oor && r.Chance(25) {
					h = pickH()
				}
				w := stmtEncUntypedInt(h, v)
				if w == "err" && !oor {
					continue // in range under one hasher only: keep the batch's outcome unambiguous
				}
				hand(h, c, w)
			}
			if oor {
				hasOOR = true
			} else if r.Chance(30) {
				if w := stmtEncUntypedInt(hs, v); w != "err" {
					dt := "integer"
					if v.Sign() > 0 && r.Bool() {
						dt = r.Pick([]string{"positiveInteger", "nonNegativeInteger"})
					} else if v.Sign() < 0 && r.Bool() {
						dt = r.Pick([]string{"negativeInteger", "nonPositiveInteger"})
					}
					lit(hs, dt, v.String(), w)
				}
			}
			if twins {
				str(pickH(), v.String())
			}
		case 3: // instant
			t := g.batchTime()
			hand(hs, t, stmtEncTime(hs, t))
			if r.Chance(40) {
				// the same instant in another zone: another spelling, the same element
				t2 := t.In(time.FixedZone("", (r.Intn(1679)-839)*60))
				h := pickH()
				hand(h, t2, stmtEncTime(h, t))
			}
			if r.Chance(30) {
				lit(hs, "dateTime", t.Format(time.RFC3339Nano), stmtEncTime(hs, t))
			}
			if twins {
				if r.Chance(70) {
					str(pickH(), t.String())
				}
				if r.Chance(50) {
					str(pickH(), t.Format(time.RFC3339Nano))
				}
				if t.Year() > 1678 && t.Year() < 2262 && r.Chance(40) {
					// the integer of its nanoseconds is an integer
					h := pickH()
					x := big.NewInt(t.UnixNano())
					if w := stmtEncUntypedInt(h, x); w != "err" {
						hand(h, x.Int64(), w)
						if r.Bool() {
							str(pickH(), x.String())
						}
					}
				}
			}
		default: // text, twice
			s := r.Pick([]string{"a", "true", "false", "0", "1", "-1", "42", "1.5", "<nil>", "%v", "2024-02-29 12:30:00 +0000 UTC", "hello world", "ünï©ödé", "urn:x:y"})
			hs := hs
			hand(hs, s, stmtEncStr(hs, s))
			if twins {
				str(pickH(), s)
			}
		}
	}
	if len(items) == 0 {
		return
	}
	// order of the call
	pm := r.Perm(len(items))
	sh := make([]batchItem, len(items))
	for i, j := range pm {
		sh[i] = items[j]
	}
	items = sh

	var why []string
	fail := func(f string, a ...any) { why = append(why, fmt.Sprintf(f, a...)) }

	// make the entries: literals through one dataset per hasher, the others by hand
	perH := map[string][]int{}
	var hOrder []string
	for i, it := range items {
		if it.dt != "" {
			if _, ok := perH[it.hs.Name]; !ok {
				hOrder = append(hOrder, it.hs.Name)
			}
			perH[it.hs.Name] = append(perH[it.hs.Name], i)
		}
	}
	made := make([]bool, len(items))
	for _, hn := range hOrder {
		idx := perH[hn]
		hs := items[idx[0]].hs
		ds := ld.NewRDFDataset()
		var qs []*ld.Quad
		for _, i := range idx {
			qs = append(qs, &ld.Quad{Subject: ld.NewIRI("urn:c04:s"), Predicate: ld.NewIRI(fmt.Sprintf("urn:c04:l%d", i)), Object: ld.NewLiteral(items[i].lex, items[i].dt, "")})
		}
		ds.Graphs["@default"] = qs
		ents, err := guard(5*time.Second, func() ([]merklize.RDFEntry, error) { return merklize.EntriesFromRDFWithHasher(ds, hs.H) })
		if err != nil {
			fail("dataset of in-range literals %v is rejected under %s: %v", func() (d []string) {
				for _, i := range idx {
					d = append(d, items[i].desc)
				}
				return
			}(), hs.Name, err)
			continue
		}
		for _, e := range ents {
			parts := e.VerifKeyParts()
			if len(parts) != 1 {
				continue
			}
			for _, i := range idx {
				if parts[0] == fmt.Sprintf("urn:c04:l%d", i) && !made[i] {
					items[i].entry, made[i] = e, true
				}
			}
		}
		for _, i := range idx {
			if !made[i] {
				fail("literal %s of the dataset has no entry", items[i].desc)
			}
		}
	}
	for i := range items {
		it := &items[i]
		if it.dt != "" {
			continue
		}
		var p merklize.Path
		var e merklize.RDFEntry
		var err error
		if it.hs.Name == "poseidon" && r.Bool() {
			// the package-level constructors: the default hasher (nothing in this generator replaces it)
			if p, err = merklize.NewPath(fmt.Sprintf("urn:c04:h%d", i)); err == nil {
				e, err = merklize.NewRDFEntry(p, it.val)
			}
		} else {
			o := merklize.Options{Hasher: it.hs.H}
			if r.Chance(30) {
				p, err = o.NewPath("urn:c04:list", i, fmt.Sprintf("urn:c04:h%d", i))
			} else {
				p, err = o.NewPath(fmt.Sprintf("urn:c04:h%d", i))
			}
			if err == nil {
				e, err = o.NewRDFEntry(p, it.val)
			}
		}
		if err != nil {
			fail("no entry can be made for %s: %v", it.desc, err)
			continue
		}
		it.entry, made[i] = e, true
	}
	var entries []merklize.RDFEntry
	var live []*batchItem
	for i := range items {
		if made[i] {
			entries = append(entries, items[i].entry)
			live = append(live, &items[i])
		}
	}

	// (a) every entry on its own, and the stand-alone Value of the same thing
	keys := make([]*big.Int, len(live))
	for i, it := range live {
		k, kerr := it.entry.KeyMtEntry()
		if kerr != nil || k == nil {
			fail("key of %s does not hash: %v", it.desc, kerr)
			k = big.NewInt(-1)
		}
		keys[i] = k
		got, err := guard(5*time.Second, func() (*big.Int, error) { return it.entry.ValueMtEntry() })
		if w, isInt := it.want.(*big.Int); isInt {
			if err != nil || got == nil || got.Cmp(w) != 0 {
				fail("entry %s under %s encodes as %v (%v) on its own, the statement's encoding is %v", it.desc, it.hs.Name, got, err, w)
			}
		} else if err == nil {
			fail("entry %s under %s is outside every integer range (p = %v) but encodes as %v", it.desc, it.hs.Name, it.hs.Prime, got)
		}
		if it.dt == "" {
			val := it.val
			if x, isInt := val.(int); isInt {
				val = int64(x)
			}
			v, err := merklize.NewValue(it.hs.H, val)
			var got *big.Int
			if err == nil {
				got, err = v.MtEntry()
			}
			if w, isInt := it.want.(*big.Int); isInt {
				if err != nil || got == nil || got.Cmp(w) != 0 {
					fail("Value %s under %s encodes as %v (%v), the statement's encoding is %v", it.desc, it.hs.Name, got, err, w)
				}
			} else if err == nil {
				fail("Value %s under %s is outside every integer range (p = %v) but encodes as %v", it.desc, it.hs.Name, it.hs.Prime, got)
			}
		}
	}

	// (b) what the call hands to the tree
	ctx := context.Background()
	rec := &recTree{}
	_, aerr := guard(10*time.Second, func() (int, error) { return 0, merklize.AddEntriesToMerkleTree(ctx, rec, entries) })
	implJ := J{}
	switch {
	case aerr != nil && errClass(aerr) != "err":
		implJ = errJ(aerr)
		fail("AddEntriesToMerkleTree: %v", aerr)
	case hasOOR:
		if aerr == nil {
			fail("the batch holds an integer outside every range of its hasher's prime, but AddEntriesToMerkleTree accepts the call (%d entries: %s)", len(live), batchDesc(live))
		}
		implJ = J{"err": aerr != nil}
	case aerr != nil:
		implJ = errJ(aerr)
		if len(why) == 0 {
			fail("every value of the batch has an encoding, but AddEntriesToMerkleTree fails: %v", aerr)
		}
	default:
		implJ = okJ(len(rec.keys))
		given := map[string]int{}
		byKey := map[string][]string{}
		for i := range rec.keys {
			given[rec.keys[i].String()+"/"+rec.vals[i].String()]++
			byKey[rec.keys[i].String()] = append(byKey[rec.keys[i].String()], rec.vals[i].String())
		}
		if len(rec.keys) != len(live) {
			fail("%d entries, %d leaves handed to the tree", len(live), len(rec.keys))
		}
		for i, it := range live {
			w, isInt := it.want.(*big.Int)
			if !isInt {
				continue
			}
			id := keys[i].String() + "/" + w.String()
			if given[id] > 0 {
				given[id]--
				continue
			}
			fail("entry %d of the call, %s under %s: the tree was given %v for its key, the statement's encoding is %v (the call held %d entries: %s)",
				i, it.desc, it.hs.Name, byKey[keys[i].String()], w, len(live), batchDesc(live))
		}
	}

	// (c) a real tree: the proof of every field verifies against the statement's encoding
	realTree := false
	if !hasOOR && aerr == nil && len(why) == 0 && r.Chance(35) {
		realTree = true
		distinct := map[string]bool{}
		for i, it := range live {
			if it.hs.Prime.Cmp(constants.Q) != 0 || distinct[keys[i].String()] {
				realTree = false
			}
			distinct[keys[i].String()] = true
		}
	}
	if realTree {
		viaAdapter := r.Bool()
		_, terr := guard(20*time.Second, func() (int, error) {
			mt, err := merkletree.NewMerkleTree(ctx, memory.NewMemoryStorage(), 40)
			if err != nil {
				return 0, nil // not the library under test
			}
			var app interface {
				Add(context.Context, *big.Int, *big.Int) error
			} = mt
			if viaAdapter {
				app = merklize.MerkleTreeSQLAdapter(mt)
			}
			if err := merklize.AddEntriesToMerkleTree(ctx, app, entries); err != nil {
				return 0, err
			}
			for i, it := range live {
				proof, _, err := mt.GenerateProof(ctx, keys[i], nil)
				if err != nil {
					return 0, err
				}
				if !proof.Existence || !merkletree.VerifyProof(mt.Root(), proof, keys[i], it.want.(*big.Int)) {
					fail("real tree: the proof of %s under %s does not verify against the statement's encoding %v (the call held: %s)", it.desc, it.hs.Name, it.want, batchDesc(live))
				}
			}
			return 0, nil
		})
		if terr != nil {
			fail("real tree: %v", terr)
		}
	}

	inJ := make([]any, len(items))
	for i, it := range items {
		via := "hand"
		if it.dt != "" {
			via = "dataset"
		}
		inJ[i] = J{"v": it.desc, "h": it.hs.Name, "via": via, "want": fmt.Sprint(it.want)}
	}
	tags := []string{"tree-batch", "h:" + hs1.Name, fmt.Sprintf("entries:%d", len(items))}
	if hs2.Name != hs1.Name {
		tags = append(tags, "two-hashers")
	}
	if hasOOR {
		tags = append(tags, "out-of-range")
	}
	if realTree {
		tags = append(tags, "real-tree")
	}
	g.out.Emit(Case{Op: "none", In: J{"batch": inJ}, Impl: implJ, Prop: propOf(why), Tags: tags, NT: len(items) > 1})
}

func batchDesc(live []*batchItem) string {
	var d []string
	for _, it := range live {
		d = append(d, it.desc)
	}
	s := strings.Join(d, " | ")
	if len(s) > 600 {
		s = s[:600] + "..."
	}
	return s
}

func genC04(out *Out, r *Rng, tier string, n int, shard int) {
	g := &c04gen{out: out, r: r, shard: shard}
	g.run(tier, n)
}
