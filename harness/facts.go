package main

import (
	"encoding/json"
	"fmt"
	"go/ast"
	"go/parser"
	"go/token"
	"os"
	"path/filepath"
	"sort"
	"strconv"
	"strings"
)

// facts: a tiny translator. It reads the repository's source (go/ast, no type checking) and prints, as JSON, the literal
// facts that the hand-written Lean model repeats as definitions: the serialization attribute's prefix, part limit and
// key -> slot table (ParseSerializationAttr), the bound on alternate links, the size limit of a status response, the depth
// of every tree the merklizer creates, the safe-mode value every Merklizer literal starts with. bin/check turns the output
// into a Lean file whose theorems state that the model's definitions are these very values; the file is regenerated and
// re-checked on every run, so a change of one of these facts in the source breaks a proof obligation, by name.
func facts(root string) {
	out := map[string]any{}
	fset := token.NewFileSet()
	parse := func(rel string) *ast.File {
		f, err := parser.ParseFile(fset, filepath.Join(root, rel), nil, 0)
		if err != nil {
			out["error:"+rel] = err.Error()
			return nil
		}
		return f
	}
	// --- verifiable/core_utils.go: ParseSerializationAttr
	if f := parse("verifiable/core_utils.go"); f != nil {
		for _, d := range f.Decls {
			fd, ok := d.(*ast.FuncDecl)
			if !ok || fd.Name.Name != "ParseSerializationAttr" || fd.Body == nil {
				continue
			}
			keys := [][2]string{}
			// string literals assigned to local names (whatever the names are)
			lits := map[string]string{}
			ast.Inspect(fd.Body, func(n ast.Node) bool {
				if x, ok := n.(*ast.AssignStmt); ok && len(x.Lhs) == 1 && len(x.Rhs) == 1 {
					if id, ok := x.Lhs[0].(*ast.Ident); ok {
						if s, ok := strLit(x.Rhs[0]); ok {
							lits[id.Name] = s
						}
					}
				}
				return true
			})
			ast.Inspect(fd.Body, func(n ast.Node) bool {
				switch x := n.(type) {
				case *ast.CallExpr:
					// the prefix is what the attribute is tested against with strings.HasPrefix: a literal or a local name for one
					if sel, ok := x.Fun.(*ast.SelectorExpr); ok && sel.Sel.Name == "HasPrefix" && len(x.Args) == 2 {
						if s, ok := strLit(x.Args[1]); ok {
							out["serPrefix"] = s
						} else if id, ok := x.Args[1].(*ast.Ident); ok {
							if s, ok := lits[id.Name]; ok {
								out["serPrefix"] = s
							}
						}
					}
				case *ast.IfStmt:
					// the limit on the number of parts: len(<the split result>) > N (whatever the slice is called)
					if be, ok := x.Cond.(*ast.BinaryExpr); ok {
						if call, ok := be.X.(*ast.CallExpr); ok {
							if id, ok := call.Fun.(*ast.Ident); ok && id.Name == "len" && len(call.Args) == 1 {
								if _, ok := call.Args[0].(*ast.Ident); ok {
									if v, ok := intExpr(be.Y); ok {
										if _, seen := out["serPartsCond"]; !seen && be.Op == token.GTR {
											out["serPartsCond"] = fmt.Sprintf("len(parts) %s %d", be.Op, v)
										}
									}
								}
							}
						}
					}
				case *ast.CaseClause:
					for _, e := range x.List {
						k, ok := strLit(e)
						if !ok {
							continue
						}
						for _, st := range x.Body {
							if as, ok := st.(*ast.AssignStmt); ok && len(as.Lhs) == 1 {
								if sel, ok := as.Lhs[0].(*ast.SelectorExpr); ok {
									keys = append(keys, [2]string{k, sel.Sel.Name})
								}
							}
						}
					}
				}
				return true
			})
			out["serKeys"] = keys
		}
	}
	// --- merklize/merklize.go: convertStringToXSDValue's switch (which datatypes are converted, the boolean spellings)
	if f := parse("merklize/merklize.go"); f != nil {
		dtName := func(e ast.Expr) string {
			switch x := e.(type) {
			case *ast.BinaryExpr: // ld.XSDNS + "name"
				if sel, ok := x.X.(*ast.SelectorExpr); ok && sel.Sel.Name == "XSDNS" && x.Op == token.ADD {
					if s, ok := strLit(x.Y); ok {
						return "xsd:" + s
					}
				}
			case *ast.SelectorExpr: // ld.XSDInteger
				if strings.HasPrefix(x.Sel.Name, "XSD") && len(x.Sel.Name) > 3 {
					n := strings.TrimPrefix(x.Sel.Name, "XSD")
					return "xsd:" + strings.ToLower(n[:1]) + n[1:]
				}
			}
			return "?"
		}
		for _, d := range f.Decls {
			fd, ok := d.(*ast.FuncDecl)
			if !ok || fd.Name.Name != "convertStringToXSDValue" || fd.Body == nil {
				continue
			}
			var outer *ast.SwitchStmt
			for _, st := range fd.Body.List {
				if sw, ok := st.(*ast.SwitchStmt); ok {
					outer = sw
				}
			}
			if outer == nil {
				continue
			}
			cases := [][]string{}
			for _, st := range outer.Body.List {
				cc := st.(*ast.CaseClause)
				var names []string
				for _, e := range cc.List {
					names = append(names, dtName(e))
				}
				if names != nil {
					cases = append(cases, names)
				}
				if len(names) == 1 && names[0] == "xsd:boolean" {
					for _, b := range cc.Body {
						inner, ok := b.(*ast.SwitchStmt)
						if !ok {
							continue
						}
						for _, ist := range inner.Body.List {
							icc := ist.(*ast.CaseClause)
							var lits []string
							for _, e := range icc.List {
								if s, ok := strLit(e); ok {
									lits = append(lits, s)
								}
							}
							for _, bs := range icc.Body {
								if as, ok := bs.(*ast.AssignStmt); ok && len(as.Rhs) == 1 {
									if id, ok := as.Rhs[0].(*ast.Ident); ok && (id.Name == "true" || id.Name == "false") {
										out["xsdBool:"+id.Name] = lits
									}
								}
							}
						}
					}
				}
			}
			out["xsdConvertCases"] = cases
		}
	}
	// --- json/parser.go: GetFieldSlotIndex's switch (field of slotsPaths -> slot index, in the order of the cases)
	if f := parse("json/parser.go"); f != nil {
		sw := [][2]any{}
		for _, d := range f.Decls {
			fd, ok := d.(*ast.FuncDecl)
			if !ok || fd.Name.Name != "GetFieldSlotIndex" || fd.Body == nil {
				continue
			}
			ast.Inspect(fd.Body, func(n ast.Node) bool {
				cc, ok := n.(*ast.CaseClause)
				if !ok {
					return true
				}
				for _, e := range cc.List {
					sel, ok := e.(*ast.SelectorExpr)
					if !ok {
						continue
					}
					for _, st := range cc.Body {
						if rs, ok := st.(*ast.ReturnStmt); ok && len(rs.Results) > 0 {
							if v, ok := intExpr(rs.Results[0]); ok {
								sw = append(sw, [2]any{sel.Sel.Name, v})
							}
						}
					}
				}
				return true
			})
		}
		out["slotSwitch"] = sw
	}
	// --- loaders/document_loader.go and verifiable/status_direct.go: named integer constants
	consts := func(rel string, names ...string) {
		f := parse(rel)
		if f == nil {
			return
		}
		for _, d := range f.Decls {
			gd, ok := d.(*ast.GenDecl)
			if !ok || gd.Tok != token.CONST {
				continue
			}
			for _, sp := range gd.Specs {
				vs := sp.(*ast.ValueSpec)
				for i, nm := range vs.Names {
					for _, want := range names {
						if nm.Name == want && i < len(vs.Values) {
							if v, ok := intExpr(vs.Values[i]); ok {
								out[want] = v
							}
						}
					}
				}
			}
		}
	}
	consts("loaders/document_loader.go", "maxAlternateHops")
	consts("verifiable/status_direct.go", "limitReaderBytes")
	// --- verifiable/status_direct.go: the comparisons of the response's status code with integer literals, in source order
	if f := parse("verifiable/status_direct.go"); f != nil {
		conds := [][2]string{}
		ast.Inspect(f, func(n ast.Node) bool {
			if b, ok := n.(*ast.BinaryExpr); ok {
				if sel, ok := b.X.(*ast.SelectorExpr); ok && sel.Sel.Name == "StatusCode" {
					if v, ok := intExpr(b.Y); ok {
						conds = append(conds, [2]string{b.Op.String(), strconv.Itoa(v)})
					} else {
						conds = append(conds, [2]string{b.Op.String(), "expr"})
					}
				} else if sel, ok := b.Y.(*ast.SelectorExpr); ok && sel.Sel.Name == "StatusCode" {
					conds = append(conds, [2]string{"flipped " + b.Op.String(), "expr"})
				}
			}
			return true
		})
		out["statusCodeConds"] = conds
	}
	// --- verifiable/credential.go: getIden3StateInfo2023FromDIDDocument - the literal the entry's type is compared with, and
	// whether the loop stops at the first match (a break or return inside the matching branch)
	if f := parse("verifiable/credential.go"); f != nil {
		for _, d := range f.Decls {
			fd, ok := d.(*ast.FuncDecl)
			if !ok || fd.Name.Name != "getIden3StateInfo2023FromDIDDocument" || fd.Body == nil {
				continue
			}
			types := []string{}
			stops := false
			ast.Inspect(fd.Body, func(n ast.Node) bool {
				if ifs, ok := n.(*ast.IfStmt); ok {
					if b, ok := ifs.Cond.(*ast.BinaryExpr); ok {
						if sel, ok := b.X.(*ast.SelectorExpr); ok && sel.Sel.Name == "Type" {
							if s, ok := strLit(b.Y); ok && b.Op == token.EQL {
								types = append(types, s)
								ast.Inspect(ifs.Body, func(m ast.Node) bool {
									switch y := m.(type) {
									case *ast.BranchStmt:
										if y.Tok == token.BREAK {
											stops = true
										}
									case *ast.ReturnStmt:
										stops = true
									}
									return true
								})
							} else {
								types = append(types, "expr:"+b.Op.String())
							}
						}
					}
				}
				return true
			})
			out["stateInfoTypes"] = types
			out["stateInfoStopsAtFirst"] = stops
		}
	}
	// --- verifiable/credential.go + constants.go: the proof types VerifyProof's switch verifies (case constants in order, with the strings
	// they stand for) and what its default arm returns
	if f := parse("verifiable/credential.go"); f != nil {
		constStr := map[string]string{}
		if cf := parse("verifiable/constants.go"); cf != nil {
			for _, d := range cf.Decls {
				if gd, ok := d.(*ast.GenDecl); ok && gd.Tok == token.CONST {
					for _, sp := range gd.Specs {
						vs := sp.(*ast.ValueSpec)
						for i, nm := range vs.Names {
							if i < len(vs.Values) {
								if sv, ok := strLit(vs.Values[i]); ok {
									constStr[nm.Name] = sv
								}
							}
						}
					}
				}
			}
		}
		for _, d := range f.Decls {
			fd, ok := d.(*ast.FuncDecl)
			if !ok || fd.Name.Name != "VerifyProof" || fd.Body == nil {
				continue
			}
			cases := [][2]string{}
			deflt := "absent"
			ast.Inspect(fd.Body, func(n ast.Node) bool {
				sw, ok := n.(*ast.SwitchStmt)
				if !ok {
					return true
				}
				if id, ok := sw.Tag.(*ast.Ident); !ok || id.Name != "proofType" {
					return true
				}
				for _, st := range sw.Body.List {
					cc := st.(*ast.CaseClause)
					if cc.List == nil {
						deflt = "other"
						if len(cc.Body) == 1 {
							if rs, ok := cc.Body[0].(*ast.ReturnStmt); ok && len(rs.Results) == 1 {
								if id, ok := rs.Results[0].(*ast.Ident); ok {
									deflt = id.Name
								}
							}
						}
						continue
					}
					for _, e := range cc.List {
						if id, ok := e.(*ast.Ident); ok {
							cases = append(cases, [2]string{id.Name, constStr[id.Name]})
						} else {
							cases = append(cases, [2]string{"expr", ""})
						}
					}
				}
				return false
			})
			out["proofSwitch"] = cases
			out["proofSwitchDefault"] = deflt
		}
	}
	// --- verifiable/resolver.go: how the methods of CredentialStatusResolverRegistry use their type parameter: every index into
	// (or delete from) the resolvers map must be by the method's own first parameter, as it was given; and which package-level
	// names a method mentions
	if f := parse("verifiable/resolver.go"); f != nil {
		uses := [][2]string{}
		for _, d := range f.Decls {
			fd, ok := d.(*ast.FuncDecl)
			if !ok || fd.Recv == nil || fd.Body == nil || len(fd.Recv.List) != 1 {
				continue
			}
			rt := fd.Recv.List[0].Type
			if st, ok := rt.(*ast.StarExpr); ok {
				rt = st.X
			}
			if id, ok := rt.(*ast.Ident); !ok || id.Name != "CredentialStatusResolverRegistry" {
				continue
			}
			param := ""
			if fd.Type.Params != nil && len(fd.Type.Params.List) > 0 && len(fd.Type.Params.List[0].Names) > 0 {
				param = fd.Type.Params.List[0].Names[0].Name
			}
			use := "none"
			note := func(e ast.Expr) {
				if id, ok := e.(*ast.Ident); ok && id.Name == param && param != "" {
					if use == "none" {
						use = "param"
					}
				} else {
					use = "other"
				}
			}
			ast.Inspect(fd.Body, func(n ast.Node) bool {
				switch x := n.(type) {
				case *ast.IndexExpr:
					if sel, ok := x.X.(*ast.SelectorExpr); ok && sel.Sel.Name == "resolvers" {
						note(x.Index)
					}
				case *ast.CallExpr:
					if id, ok := x.Fun.(*ast.Ident); ok && id.Name == "delete" && len(x.Args) == 2 {
						note(x.Args[1])
					}
				case *ast.AssignStmt:
					// the parameter must reach the map as it was given
					for _, l := range x.Lhs {
						if id, ok := l.(*ast.Ident); ok && id.Name == param && param != "" {
							use = "other"
						}
					}
				case *ast.Ident:
					if x.Name == "DefaultCredentialStatusResolverRegistry" {
						use = "other"
					}
				}
				return true
			})
			uses = append(uses, [2]string{fd.Name.Name, use})
		}
		sort.Slice(uses, func(i, j int) bool { return uses[i][0] < uses[j][0] })
		out["registryKeyUse"] = uses
	}
	// --- merklize/*.go: depth of every tree created, safe-mode value of every Merklizer literal
	depths, safes := map[int]bool{}, map[string]bool{}
	files, _ := filepath.Glob(filepath.Join(root, "merklize", "*.go"))
	sort.Strings(files)
	// package-level integer constants of the package (a depth may be given by name)
	pkgConsts := map[string]int{}
	for _, p := range files {
		if strings.HasSuffix(p, "_test.go") || strings.HasSuffix(p, "verif_hooks.go") {
			continue
		}
		rel, _ := filepath.Rel(root, p)
		if f := parse(rel); f != nil {
			for _, d := range f.Decls {
				if gd, ok := d.(*ast.GenDecl); ok && (gd.Tok == token.CONST || gd.Tok == token.VAR) {
					for _, sp := range gd.Specs {
						vs := sp.(*ast.ValueSpec)
						for i, nm := range vs.Names {
							if i < len(vs.Values) {
								if v, ok := intExpr(vs.Values[i]); ok && gd.Tok == token.CONST {
									pkgConsts[nm.Name] = v
								}
							}
						}
					}
				}
			}
		}
	}
	for _, p := range files {
		if strings.HasSuffix(p, "_test.go") || strings.HasSuffix(p, "verif_hooks.go") {
			continue
		}
		rel, _ := filepath.Rel(root, p)
		f := parse(rel)
		if f == nil {
			continue
		}
		ast.Inspect(f, func(n ast.Node) bool {
			switch x := n.(type) {
			case *ast.CallExpr:
				if sel, ok := x.Fun.(*ast.SelectorExpr); ok && sel.Sel.Name == "NewMerkleTree" && len(x.Args) == 3 {
					if v, ok := intExpr(x.Args[2]); ok {
						depths[v] = true
					} else if id, ok := x.Args[2].(*ast.Ident); ok && pkgConsts[id.Name] != 0 {
						depths[pkgConsts[id.Name]] = true
					} else {
						depths[-1] = true // not a literal: the fact cannot be read off the source
					}
				}
			case *ast.CompositeLit:
				if id, ok := x.Type.(*ast.Ident); ok && id.Name == "Merklizer" {
					val := "absent"
					for _, e := range x.Elts {
						if kv, ok := e.(*ast.KeyValueExpr); ok {
							if k, ok := kv.Key.(*ast.Ident); ok && k.Name == "safeMode" {
								if v, ok := kv.Value.(*ast.Ident); ok {
									val = v.Name
								} else {
									val = "expr"
								}
							}
						}
					}
					safes[val] = true
				}
			}
			return true
		})
	}
	// --- merklize/*.go: every function that returns a MerklizeOption, with what its body does to the merklizer: the fields it
	// assigns (in order, selector and the expression assigned), or "other" for any statement that is not such an assignment
	mzOpts := [][]string{}
	for _, p := range files {
		if strings.HasSuffix(p, "_test.go") || strings.HasSuffix(p, "verif_hooks.go") {
			continue
		}
		rel, _ := filepath.Rel(root, p)
		f := parse(rel)
		if f == nil {
			continue
		}
		for _, d := range f.Decls {
			fd, ok := d.(*ast.FuncDecl)
			if !ok || fd.Recv != nil || fd.Type.Results == nil || len(fd.Type.Results.List) != 1 || fd.Body == nil {
				continue
			}
			if id, ok := fd.Type.Results.List[0].Type.(*ast.Ident); !ok || id.Name != "MerklizeOption" {
				continue
			}
			row := []string{fd.Name.Name}
			for _, st := range fd.Body.List {
				rs, ok := st.(*ast.ReturnStmt)
				if !ok || len(rs.Results) != 1 {
					row = append(row, "other")
					continue
				}
				fl, ok := rs.Results[0].(*ast.FuncLit)
				if !ok {
					row = append(row, "other")
					continue
				}
				for _, bs := range fl.Body.List {
					as, ok := bs.(*ast.AssignStmt)
					if !ok || len(as.Lhs) != 1 || len(as.Rhs) != 1 || as.Tok != token.ASSIGN {
						row = append(row, "other")
						continue
					}
					sel, ok1 := as.Lhs[0].(*ast.SelectorExpr)
					rhs, ok2 := as.Rhs[0].(*ast.Ident)
					if !ok1 || !ok2 {
						row = append(row, "other")
						continue
					}
					// the value assigned must be the option's own parameter
					isParam := false
					for _, prm := range fd.Type.Params.List {
						for _, nm := range prm.Names {
							if nm.Name == rhs.Name {
								isParam = true
							}
						}
					}
					if isParam {
						row = append(row, sel.Sel.Name)
					} else {
						row = append(row, sel.Sel.Name+":=?")
					}
				}
			}
			mzOpts = append(mzOpts, row)
		}
	}
	sort.Slice(mzOpts, func(i, j int) bool { return mzOpts[i][0] < mzOpts[j][0] })
	out["merklizeOptions"] = mzOpts
	var dl []int
	for d := range depths {
		dl = append(dl, d)
	}
	sort.Ints(dl)
	out["treeDepths"] = dl
	var sl []string
	for s := range safes {
		sl = append(sl, s)
	}
	sort.Strings(sl)
	out["merklizerSafeModeLiterals"] = sl
	b, _ := json.MarshalIndent(out, "", " ")
	fmt.Println(string(b))
}

func strLit(e ast.Expr) (string, bool) {
	if bl, ok := e.(*ast.BasicLit); ok && bl.Kind == token.STRING {
		s, err := strconv.Unquote(bl.Value)
		return s, err == nil
	}
	return "", false
}

// intExpr: integer literals combined with * + - << and parentheses
func intExpr(e ast.Expr) (int, bool) {
	switch x := e.(type) {
	case *ast.BasicLit:
		if x.Kind == token.INT {
			v, err := strconv.ParseInt(x.Value, 0, 64)
			return int(v), err == nil
		}
	case *ast.ParenExpr:
		return intExpr(x.X)
	case *ast.BinaryExpr:
		a, ok1 := intExpr(x.X)
		b, ok2 := intExpr(x.Y)
		if ok1 && ok2 {
			switch x.Op {
			case token.MUL:
				return a * b, true
			case token.ADD:
				return a + b, true
			case token.SUB:
				return a - b, true
			case token.SHL:
				return a << uint(b), true
			}
		}
	}
	return 0, false
}

func init() {
	if len(os.Args) >= 3 && os.Args[1] == "facts" {
		facts(os.Args[2])
		os.Exit(0)
	}
}
