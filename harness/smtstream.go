package main

import (
	"context"
	"math/big"

	"github.com/iden3/go-iden3-crypto/constants"
	"github.com/iden3/go-merkletree-sql/v2"
	"github.com/iden3/go-merkletree-sql/v2/db/memory"
)

// pure sparse-Merkle-tree op stream against the real go-merkletree-sql
func emitSmtStream(out *Out, r *Rng, nops int) {
	ctx := context.Background()
	mt, _ := merkletree.NewMerkleTree(ctx, memory.NewMemoryStorage(), 40)
	var ops []any
	var res []any
	var keys []*big.Int
	var why []string
	mode := r.Intn(4)
	newKey := func() *big.Int {
		switch mode {
		case 0: // random field elements
			return r.BigBelow(constants.Q)
		case 1: // small keys
			return big.NewInt(int64(r.Intn(64)))
		case 2: // keys sharing long low-bit prefixes (deep paths, aux nodes); sometimes beyond 40 levels
			base := big.NewInt(int64(r.Intn(4)))
			sh := uint(20 + r.Intn(25))
			hi := new(big.Int).Lsh(big.NewInt(int64(1+r.Intn(7))), sh)
			return hi.Add(hi, base)
		default:
			if len(keys) > 0 && r.Chance(40) {
				k := new(big.Int).Set(keys[r.Intn(len(keys))])
				return k.Xor(k, new(big.Int).Lsh(big.NewInt(1), uint(r.Intn(60))))
			}
			return r.BigBelow(constants.Q)
		}
	}
	for i := 0; i < nops; i++ {
		if r.Chance(65) || len(keys) == 0 {
			k := newKey()
			if len(keys) > 0 && r.Chance(8) {
				k = keys[r.Intn(len(keys))] // duplicate
			}
			v := r.BigBelow(constants.Q)
			if r.Chance(20) {
				v = big.NewInt(0)
			}
			ops = append(ops, J{"o": "add", "k": k.String(), "v": v.String()})
			err := mt.Add(ctx, k, v)
			if err != nil {
				res = append(res, J{"err": "err"})
			} else {
				keys = append(keys, k)
				res = append(res, okJ(mt.Root().BigInt().String()))
			}
		} else {
			var k *big.Int
			if r.Chance(50) {
				k = keys[r.Intn(len(keys))]
			} else {
				k = newKey()
			}
			other := r.BigBelow(constants.Q)
			ops = append(ops, J{"o": "proof", "k": k.String(), "v": other.String()})
			p, val, err := mt.GenerateProof(ctx, k, nil)
			if err != nil {
				res = append(res, J{"err": "err"})
				continue
			}
			sibs := []any{}
			for _, s := range p.AllSiblings() {
				sibs = append(sibs, s.BigInt().String())
			}
			var aux any
			if p.NodeAux != nil {
				aux = []any{p.NodeAux.Key.BigInt().String(), p.NodeAux.Value.BigInt().String()}
			}
			v := other
			if p.Existence {
				v = val
			}
			ver := merkletree.VerifyProof(mt.Root(), p, k, v)
			if !ver {
				why = append(why, "generated proof does not verify for key "+k.String())
			}
			isMember := false
			for _, kk := range keys {
				if kk.Cmp(k) == 0 {
					isMember = true
				}
			}
			if isMember != p.Existence {
				why = append(why, "existence flag differs from membership for key "+k.String())
			}
			res = append(res, okJ(J{"ex": p.Existence, "sib": sibs, "aux": aux, "verifies": ver}))
		}
	}
	out.Emit(Case{Op: "smt.run", In: J{"ops": ops}, Impl: res, Prop: propOf(why), Tags: []string{"smt-stream", "mode:" + string(rune('0'+mode))}, NT: true})
}
