package main

import (
	"context"
	"fmt"
	"math/big"
	"reflect"
	"strings"
	"time"

	"github.com/iden3/go-merkletree-sql/v2"
	"github.com/iden3/go-merkletree-sql/v2/db/memory"
	"github.com/iden3/go-schema-processor/v2/merklize"
)

type mzObs struct {
	root    string
	entries map[string]string // key hash -> canonical entry
}

func observe(mz *merklize.Merklizer) mzObs {
	o := mzObs{root: mz.Root().BigInt().String(), entries: map[string]string{}}
	for k, e := range mz.VerifEntries() {
		o.entries[k] = fmt.Sprint(entryJ(e))
	}
	return o
}

// per-path observation: raw value, datatype, proof existence, verification
func pathObs(mz *merklize.Merklizer, parts []interface{}) string {
	ctx := context.Background()
	p, err := mz.Options().NewPath(parts...)
	if err != nil {
		return "patherr"
	}
	raw, rerr := mz.RawValue(p)
	dt, derr := mz.JSONLDType(p)
	proof, val, perr := mz.Proof(ctx, p)
	s := fmt.Sprintf("raw=%v/%v dt=%v/%v", raw, rerr != nil, dt, derr != nil)
	if perr != nil {
		return s + " prooferr"
	}
	kh, _ := p.MtEntry()
	ver := false
	if proof.Existence && val != nil {
		vh, err := val.MtEntry()
		ver = err == nil && merkletree.VerifyProof(mz.Root(), proof, kh, vh)
		k := "?"
		switch {
		case val.IsBigInt(), val.IsInt64():
			k = "int"
		case val.IsBool():
			k = "bool"
		case val.IsTime():
			k = "time"
		case val.IsString():
			k = "str"
		}
		s += " kind=" + k
	} else if !proof.Existence {
		ver = merkletree.VerifyProof(mz.Root(), proof, kh, kh)
	}
	return s + fmt.Sprintf(" ex=%v ver=%v", proof.Existence, ver)
}

func genC13(out *Out, r *Rng, tier string, n int, shard int) {
	ctx := context.Background()
	for i := 0; i < n; i++ {
		hs := hPoseidon()
		if i%3 == 1 {
			hs = hSalted()
		}
		if i%3 == 2 {
			hs = hSmall(2305843009213693951)
		}
		g := NewDocGen(r, 1+r.Intn(3))
		g.prime = hs.Prime
		root := g.node(g.sch.Root, 0, r.Bool())
		if i%8 == 5 {
			// a document that says nothing: it merklizes to no entries at all, and that merklizer round-trips like any other
			root = &ANode{ID: g.iri("node")}
			if r.Bool() {
				root.ID = ""
			}
		}
		doc := g.Render(root, randomPresentation(r))
		loader := &mapLoader{docs: map[string][]byte{g.sch.URL: g.ContextDoc()}}
		var facts []Fact
		factsOf(root, nil, nil, &facts)
		tags, _ := docTags(root, facts)
		tags = append(tags, "h:"+hs.Name)
		impl0, run, dsJ, canon, why := docImpl(doc, hs, loader, true, nil)
		if run.Err != nil {
			continue
		}
		mz := run.Mz
		queries := queriesFor(run.Entries, r, 10)
		orig := observe(mz)
		bs, err := mz.MarshalBinary()
		if err != nil && strings.Contains(err.Error(), "Time.MarshalBinary") {
			// encoding/gob cannot encode an instant whose zone offset is -1 minute (the value gob's time encoding reserves for UTC) or
			// beyond +-32767 minutes: there is no binary form, so nothing to compare - as long as the refusal is an error
			out.Emit(Case{Op: "none", In: J{"doc": string(doc)}, Impl: J{"err": "err"}, Prop: &PropRes{OK: true}, Tags: []string{"marshal-refused-by-gob-time"}, NT: false})
			continue
		}
		if err != nil {
			why = append(why, "MarshalBinary failed: "+err.Error())
		}
		bs2, _ := mz.MarshalBinary() // second marshal samples another map order
		for cfg := 0; cfg < 4 && err == nil; cfg++ {
			var w2 []string
			opts := []merklize.MerklizeOption{merklize.WithHasher(hs.H), merklize.WithDocumentLoader(loader)}
			wantOK := true
			cname := "no-tree"
			switch cfg {
			case 1: // matching tree: same entries inserted beforehand
				mt, _ := merkletree.NewMerkleTree(ctx, memory.NewMemoryStorage(), 40)
				if e := merklize.AddEntriesToMerkleTree(ctx, merklize.MerkleTreeSQLAdapter(mt), run.Entries); e != nil {
					continue
				}
				opts = append(opts, merklize.WithMerkleTree(merklize.MerkleTreeSQLAdapter(mt)))
				cname = "matching-tree"
			case 2: // non-matching tree
				mt, _ := merkletree.NewMerkleTree(ctx, memory.NewMemoryStorage(), 40)
				if len(run.Entries) == 0 || r.Bool() {
					_ = mt.Add(ctx, bigOf(12345), bigOf(1))
				}
				opts = append(opts, merklize.WithMerkleTree(merklize.MerkleTreeSQLAdapter(mt)))
				wantOK = false
				cname = "other-tree"
			case 3: // a tree whose root is almost the recorded one (one off, one bit off): still not the recorded root
				mt, _ := merkletree.NewMerkleTree(ctx, memory.NewMemoryStorage(), 40)
				if e := merklize.AddEntriesToMerkleTree(ctx, merklize.MerkleTreeSQLAdapter(mt), run.Entries); e != nil {
					continue
				}
				nm, e := merkletree.NewHashFromBigInt(nearMiss(mt.Root().BigInt(), r))
				if e != nil {
					continue
				}
				opts = append(opts, merklize.WithMerkleTree(&rootedTree{MerkleTree: merklize.MerkleTreeSQLAdapter(mt), root: nm}))
				wantOK = false
				cname = "near-miss-tree"
			}
			in := bs
			if cfg == 1 {
				in = bs2
			}
			mz2, rerr := guard(10*time.Second, func() (*merklize.Merklizer, error) {
				m, e := merklize.MerklizerFromBytes(in, opts...)
				if e == nil && m == nil {
					return nil, errNilNil
				}
				return m, e
			})
			c := Case{Op: "mz.doc", In: J{"h": hs.JSON, "ds": dsJ, "canon": canon, "doc": string(doc)}, Tags: append(append([]string{}, tags...), "cfg:"+cname), NT: true}
			if rerr != nil {
				if wantOK {
					w2 = append(w2, "restore failed ("+cname+"): "+rerr.Error())
				}
				c.Op = "none"
				c.Impl = errJ(rerr)
			} else if !wantOK {
				w2 = append(w2, "restoring into a tree that does not have the recorded root succeeded")
				c.Op = "none"
				c.Impl = okJ("restored")
			} else {
				got := observe(mz2)
				if got.root != orig.root {
					w2 = append(w2, "restored root differs")
				}
				if !reflect.DeepEqual(got.entries, orig.entries) {
					w2 = append(w2, "restored entry set differs")
				}
				if mz2.VerifSafeMode() != mz.VerifSafeMode() || string(mz2.VerifSrcDoc()) != string(mz.VerifSrcDoc()) {
					w2 = append(w2, "restored source document / safe mode differs")
				}
				for _, q := range queries {
					a, b := pathObs(mz, q), pathObs(mz2, q)
					if a != b {
						w2 = append(w2, fmt.Sprintf("path %v observed differently after restore: %s vs %s", q, a, b))
						break
					}
				}
				// the implementation-side observation of the *restored* merklizer in the model's terms
				okv := impl0["ok"].(J)
				c.Impl = okJ(J{"entries": okv["entries"], "root": got.root, "leaves": len(got.entries), "q": []any{}})
			}
			c.Prop = propOf(append(append([]string{}, why...), w2...))
			out.Emit(c)
		}
		// single entries on their own
		var w3 []string
		// entries made through the options, with every kind of value an entry takes
		if pk, err := mz.Options().NewPath("urn:ex:made", 3, "urn:ex:by-hand"); err == nil {
			for _, v := range []any{int64(-5), int64(7), int(9), "text", "", true, false, big.NewInt(-12345), new(big.Int).Lsh(big.NewInt(1), 70), time.Date(1931, 5, 6, 7, 8, 9, 1, time.FixedZone("", 19800)), time.Unix(0, 0).UTC()} {
				em, err := mz.Options().NewRDFEntry(pk, v)
				if err != nil {
					if s, isStr := v.(string); !(isStr && s == "") {
						w3 = append(w3, fmt.Sprintf("NewRDFEntry refuses a %T value: %v", v, err))
					}
					continue
				}
				b, err := em.MarshalBinary()
				if err != nil {
					w3 = append(w3, fmt.Sprintf("hand-made entry with a %T value: MarshalBinary fails: %v", v, err))
					continue
				}
				p0, _ := mz.Options().NewPath("x")
				e2, _ := mz.Options().NewRDFEntry(p0, "y")
				if err := e2.UnmarshalBinary(b); err != nil {
					w3 = append(w3, fmt.Sprintf("hand-made entry with a %T value: UnmarshalBinary fails: %v", v, err))
					continue
				}
				k1, v1, err1 := em.KeyValueMtEntries()
				k2, v2, err2 := e2.KeyValueMtEntries()
				if (err1 == nil) != (err2 == nil) || (err1 == nil && (k1.Cmp(k2) != 0 || v1.Cmp(v2) != 0)) {
					w3 = append(w3, fmt.Sprintf("hand-made entry with a %T value %v hashes differently after its own round trip (%v/%v vs %v/%v)", v, v, k1, v1, k2, v2))
				}
			}
			// an entry needs a key; a value of a kind entries do not take is refused
			if _, err := mz.Options().NewRDFEntry(merklize.Path{}, "v"); err == nil {
				w3 = append(w3, "NewRDFEntry accepts an empty key")
			}
			if _, err := mz.Options().NewRDFEntry(pk, 1.5); err == nil {
				w3 = append(w3, "NewRDFEntry accepts a float64 value")
			}
			if pe, err := merklize.NewRDFEntry(pk, int64(5)); err != nil {
				w3 = append(w3, "merklize.NewRDFEntry fails: "+err.Error())
			} else if vh, err := pe.ValueMtEntry(); err != nil || vh.Int64() != 5 {
				w3 = append(w3, fmt.Sprintf("merklize.NewRDFEntry(int64 5) encodes as %v (%v)", vh, err))
			}
		}
		ne := 0
		for _, e := range run.Entries {
			e := e
			b, err := e.MarshalBinary()
			if err != nil && strings.Contains(err.Error(), "Time.MarshalBinary") {
				continue
			}
			if err != nil {
				w3 = append(w3, "entry MarshalBinary failed: "+err.Error())
				continue
			}
			p0, _ := mz.Options().NewPath("x")
			e2, _ := mz.Options().NewRDFEntry(p0, "")
			if err := e2.UnmarshalBinary(b); err != nil {
				w3 = append(w3, "entry UnmarshalBinary failed: "+err.Error())
				continue
			}
			if fmt.Sprint(entryJ(e)) != fmt.Sprint(entryJ(e2)) {
				w3 = append(w3, fmt.Sprintf("entry differs after its own round trip: %v vs %v", entryJ(e), entryJ(e2)))
			}
			k1, v1, err1 := e.KeyValueMtEntries()
			k2, v2, err2 := e2.KeyValueMtEntries()
			if err1 != nil || err2 != nil || k1.Cmp(k2) != 0 || v1.Cmp(v2) != 0 {
				w3 = append(w3, fmt.Sprintf("entry hashes differ after round trip: %v", e.VerifKeyParts()))
			}
			ne++
		}
		out.Emit(Case{Op: "none", In: J{"doc": string(doc)}, Impl: okJ(ne), Prop: propOf(w3), Tags: append(append([]string{}, tags...), "single-entries"), NT: ne > 0})
	}
}

func init() { gens["C13"] = genC13 }

// rootedTree: a caller's tree (any implementation of the interface) that reports the given root
type rootedTree struct {
	merklize.MerkleTree
	root *merkletree.Hash
}

func (t *rootedTree) Root() *merkletree.Hash { return t.root }
