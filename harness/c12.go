package main

// C12: total on untrusted input — an error, never a panic, a hang, memory exhaustion or (nil, nil).

import (
	"bytes"
	"context"
	"encoding/gob"
	"encoding/json"
	"fmt"
	"github.com/iden3/go-iden3-crypto/poseidon"
	"github.com/iden3/go-merkletree-sql/v2"
	"math/big"
	"sort"
	"strings"
	"time"

	"github.com/iden3/go-schema-processor/v2/merklize"
	"github.com/iden3/go-schema-processor/v2/verifiable"
)

type c12 struct {
	out *Out
	r   *Rng
}

// run f under the watchdogs; the oracle is "returns; no panic; not (nil, nil)"
func (g *c12) probe(kind string, in J, tags []string, f func() (any, error)) {
	c := Case{Op: "none", In: in, Tags: append([]string{"kind:" + kind}, tags...), NT: true}
	setCurrent(g.out, &c)
	res, err := guard(6*time.Second, func() (any, error) {
		v, e := f()
		if e == nil && isNil(v) {
			return nil, errNilNil
		}
		return v, e
	})
	var why []string
	cls := errClass(err)
	switch {
	case err == nil:
		c.Impl = J{"ok": "returned"}
		_ = res
	case err == errNilNil:
		c.Impl = J{"err": "nil_nil"}
		why = append(why, kind+": nil result together with a nil error")
	case cls == "panic" || cls == "hang":
		c.Impl = J{"err": cls}
		why = append(why, kind+": "+err.Error())
		if strings.Contains(err.Error(), "go-merkletree-sql") && strings.Contains(err.Error(), "proof.go") {
			c.Tags = append(c.Tags, "shape:panic-in-go-merkletree-sql-proof-decoder")
		}
	default:
		c.Impl = J{"err": "err"}
	}
	c.Prop = propOf(why)
	setCurrent(nil, nil)
	g.out.Emit(c)
}

func isNil(v any) bool {
	switch x := v.(type) {
	case nil:
		return true
	case *merklize.Merklizer:
		return x == nil
	case *big.Int:
		return x == nil
	case *verifiable.W3CCredential:
		return x == nil
	}
	return false
}

// ---------- (a) documents with empty strings, cycles, shared nodes ----------

func (g *c12) documents(n int) {
	r := g.r
	for i := 0; i < n; i++ {
		dg := NewDocGen(r, 1+r.Intn(2))
		dg.emptyOK = true
		root := dg.node(dg.sch.Root, 0, r.Bool())
		doc := dg.Render(root, randomPresentation(r))
		loader := &mapLoader{docs: map[string][]byte{dg.sch.URL: dg.ContextDoc()}}
		g.probe("merklize-generated", J{"doc": trunc(string(doc), 3000)}, []string{"doc"}, func() (any, error) {
			mz, err := merklize.MerklizeJSONLD(context.Background(), bytes.NewReader(doc), merklize.WithDocumentLoader(loader))
			if err != nil {
				return nil, err
			}
			return mz, nil
		})
	}
	// hand-written shapes: empty strings at every position, reference cycles, shared nodes, self references
	v := `"@context":{"@vocab":"urn:v#","r":{"@id":"urn:v#r","@type":"@id"},"q":{"@id":"urn:v#q","@type":"@id"}}`
	shapes := map[string]string{
		"empty-value":          `{` + v + `,"@id":"urn:a","name":""}`,
		"empty-value-in-array": `{` + v + `,"@id":"urn:a","name":["x",""]}`,
		"empty-typed-value":    `{` + v + `,"@id":"urn:a","name":{"@value":"","@type":"urn:t"}}`,
		"empty-nested":         `{` + v + `,"@id":"urn:a","o":{"name":""}}`,
		"empty-id":             `{` + v + `,"@id":"","name":"x"}`,
		"empty-type":           `{` + v + `,"@id":"urn:a","@type":"","name":"x"}`,
		"empty-key":            `{` + v + `,"@id":"urn:a","":"x"}`,
		"empty-ref":            `{` + v + `,"@id":"urn:a","r":""}`,
		"two-cycle":            `{` + v + `,"@graph":[{"@id":"urn:a","r":"urn:b","n":"1"},{"@id":"urn:b","q":"urn:a","n":"2"}]}`,
		"three-cycle":          `{` + v + `,"@graph":[{"@id":"urn:a","r":"urn:b"},{"@id":"urn:b","r":"urn:c"},{"@id":"urn:c","r":"urn:a","n":"x"}]}`,
		"self-reference":       `{` + v + `,"@id":"urn:a","r":"urn:a","name":"x"}`,
		"shared-node":          `{` + v + `,"@id":"urn:a","r":{"@id":"urn:c","n":"x"},"q":"urn:c"}`,
		"shared-blank":         `{` + v + `,"@id":"urn:a","r":{"@id":"_:b","n":"x"},"q":{"@id":"_:b"}}`,
		"blank-cycle":          `{` + v + `,"@graph":[{"@id":"_:a","r":{"@id":"_:b"}},{"@id":"_:b","r":{"@id":"_:a"},"n":"x"}]}`,
		"deep":                 `{` + v + strings.Repeat(`,"o":{"n":"x"`, 30) + strings.Repeat("}", 30) + `}`,
		"top-array":            `[{` + v + `,"name":"x"}]`,
		"null-doc":             `null`,
		"number-doc":           `5`,
		"empty-object":         `{}`,
		"only-context":         `{` + v + `}`,
		"graph-in-graph":       `{` + v + `,"@id":"urn:a","@graph":[{"@id":"urn:b","@graph":[{"@id":"urn:c","n":"x"}]}]}`,
		// reference cycles that run through named-graph containment (a graph's name is a node of the enclosing graph)
		"graph-cycle-blank":    `{"@context":{"@vocab":"http://ex/"},"@id":"_:g1","name":"top","@graph":[{"@id":"_:x","p":{"@id":"_:g2","@graph":[{"@id":"_:y","name":"n","q":{"@id":"_:g1"}}]}}]}`,
		"graph-cycle-iri":      `{` + v + `,"@id":"urn:g1","n":"top","@graph":[{"@id":"urn:x","o":{"@id":"urn:g2","@graph":[{"@id":"urn:y","n":"n","r":"urn:g1"}]}}]}`,
		"graph-self-reference": `{` + v + `,"@id":"urn:g1","n":"top","@graph":[{"@id":"urn:x","r":"urn:g1","n":"x"}]}`,
		"graph-cycle-three":    `{` + v + `,"@id":"urn:g1","n":"top","@graph":[{"@id":"urn:x","o":{"@id":"urn:g2","@graph":[{"@id":"urn:y","o":{"@id":"urn:g3","@graph":[{"@id":"urn:z","n":"n","r":"urn:g1"}]}}]}}]}`,
		"graph-cycle-inner":    `{` + v + `,"@id":"urn:g1","n":"top","@graph":[{"@id":"urn:x","o":{"@id":"urn:g2","@graph":[{"@id":"urn:y","n":"n","r":"urn:g2"}]}}]}`,
		"graph-named-twice":    `{` + v + `,"@id":"urn:a","o":[{"@id":"urn:g","@graph":[{"@id":"urn:y","n":"1"}]},{"@id":"urn:h","r":"urn:g","n":"2"}]}`,
		"list":                 `{` + v + `,"@id":"urn:a","l":{"@list":["a","b",""]}}`,
		"language":             `{` + v + `,"@id":"urn:a","n":{"@value":"x","@language":"en"}}`,
		"huge-number":          `{` + v + `,"@id":"urn:a","n":1e400}`,
		"nul-byte-string":      `{` + v + `,"@id":"urn:a","n":"a\u0000b"}`,
	}
	names := make([]string, 0, len(shapes))
	for k := range shapes {
		names = append(names, k)
	}
	sort.Strings(names)
	for _, name := range names {
		doc := []byte(shapes[name])
		g.probe("merklize-shape", J{"doc": string(doc), "shape": name}, []string{"shape:" + name}, func() (any, error) {
			mz, err := merklize.MerklizeJSONLD(context.Background(), bytes.NewReader(doc), merklize.WithDocumentLoader(&mapLoader{docs: map[string][]byte{}}))
			if err != nil {
				return nil, err
			}
			// a merklizer that was built must also answer queries
			for _, p := range []string{"name", "r", "o.name", "n", ""} {
				if path, err := mz.ResolveDocPath(p); err == nil {
					_, _, _ = mz.Proof(context.Background(), path)
					_, _ = mz.RawValue(path)
				}
			}
			return mz, nil
		})
	}
	// path parts
	for _, parts := range [][]interface{}{{""}, {"urn:x", ""}, {"", 0}, {0}, {"a", 1, "b", 2, "c", 3, "d", 4, "e", 5, "f", 6, "g", 7, "h"}, {}} {
		parts := parts
		g.probe("path-hash", J{"parts": partsJ(parts)}, []string{"path"}, func() (any, error) {
			p, err := merklize.NewPath(parts...)
			if err != nil {
				return nil, err
			}
			k, err := p.MtEntry()
			if err != nil {
				return nil, err
			}
			return k, nil
		})
	}
}

// ---------- (b) binary forms ----------

func encodeMz(version int, src, compacted []byte, root *big.Int, count int, entries [][2]any, safe any, truncateAt int) []byte {
	var buf bytes.Buffer
	enc := gob.NewEncoder(&buf)
	_ = enc.Encode(version)
	_ = enc.Encode(src)
	_ = enc.Encode(compacted)
	_ = enc.Encode(root)
	_ = enc.Encode(count)
	for _, e := range entries {
		_ = enc.Encode(e[0])
		_ = enc.Encode(e[1])
	}
	if safe != nil {
		_ = enc.Encode(safe)
	}
	b := buf.Bytes()
	if truncateAt >= 0 && truncateAt < len(b) {
		b = b[:truncateAt]
	}
	return b
}

func (g *c12) binaries(n int) {
	r := g.r
	// a valid image to start from
	dg := NewDocGen(r, 2)
	root := dg.node(dg.sch.Root, 0, true)
	doc := dg.Render(root, plainPresentation(r))
	loader := &mapLoader{docs: map[string][]byte{dg.sch.URL: dg.ContextDoc()}}
	mz, err := merklize.MerklizeJSONLD(context.Background(), bytes.NewReader(doc), merklize.WithDocumentLoader(loader))
	if err != nil {
		return
	}
	valid, merr := mz.MarshalBinary()
	if merr != nil || len(valid) == 0 {
		return // (an instant whose zone offset gob cannot encode: no image to damage; see C13)
	}
	restore := func(b []byte) func() (any, error) {
		return func() (any, error) {
			m, err := merklize.MerklizerFromBytes(b, merklize.WithDocumentLoader(loader))
			if err != nil {
				return nil, err
			}
			return m, nil
		}
	}
	g.probe("restore-valid", J{"len": len(valid)}, []string{"binary"}, restore(valid))
	// every count / version variant, with the rest of a well-formed stream
	comp, _ := json.Marshal(mz.VerifCompacted())
	type ent = [2]any
	var ents []ent
	for k, e := range mz.VerifEntries() {
		e := e
		ents = append(ents, ent{k, &e})
	}
	for _, cnt := range []int{-1, -1 << 31, -1 << 62, 0, len(ents) - 1, len(ents) + 1, 1 << 20, 1 << 31, 1 << 40, 1 << 62} {
		for _, ver := range []int{1, 0, 2, -1} {
			b := encodeMz(ver, doc, comp, mz.Root().BigInt(), cnt, ents, true, -1)
			g.probe("restore-count", J{"count": cnt, "version": ver, "entries": len(ents), "hex": hexS(b[:minInt(len(b), 64)])}, []string{"binary", fmt.Sprintf("count:%d", cnt)}, restore(b))
		}
	}
	for _, variant := range []func() []byte{
		func() []byte { return encodeMz(1, doc, []byte("not json"), mz.Root().BigInt(), 0, nil, true, -1) },
		func() []byte { return encodeMz(1, doc, []byte("null"), mz.Root().BigInt(), 0, nil, true, -1) },
		func() []byte { return encodeMz(1, nil, comp, big.NewInt(0), 0, nil, true, -1) },
		func() []byte { return encodeMz(1, doc, comp, big.NewInt(-5), 0, nil, true, -1) },
		func() []byte { return encodeMz(1, doc, comp, mz.Root().BigInt(), len(ents), ents, nil, -1) },
		func() []byte {
			return encodeMz(1, doc, comp, mz.Root().BigInt(), 1, []ent{{"k", "not an entry"}}, true, -1)
		},
		func() []byte { return encodeMz(1, doc, comp, mz.Root().BigInt(), 1, []ent{{5, 5}}, true, -1) },
		func() []byte { return nil },
		func() []byte { return []byte{0} },
		func() []byte { return []byte{0xff, 0xff, 0xff, 0xff} },
	} {
		b := variant()
		g.probe("restore-variant", J{"hex": hexS(b[:minInt(len(b), 64)])}, []string{"binary"}, restore(b))
	}
	for i := 0; i < len(valid); i += 1 + len(valid)/40 {
		g.probe("restore-truncated", J{"at": i}, []string{"binary"}, restore(valid[:i]))
	}
	// single entries: tag / version / value-type variants
	for _, e := range mz.VerifEntries() {
		e := e
		eb, _ := e.MarshalBinary()
		dec := func(b []byte) func() (any, error) {
			return func() (any, error) {
				var e2 merklize.RDFEntry
				if err := e2.UnmarshalBinary(b); err != nil {
					return nil, err
				}
				// a decoded entry must be usable
				if _, _, err := e2.KeyValueMtEntries(); err != nil {
					return nil, err
				}
				return "entry", nil
			}
		}
		g.probe("entry-valid", J{"len": len(eb)}, []string{"binary"}, dec(eb))
		for i := 0; i <= len(eb); i += 1 + len(eb)/12 {
			g.probe("entry-truncated", J{"at": i}, []string{"binary"}, dec(eb[:minInt(i, len(eb))]))
		}
		for _, tag := range []int{-1, 5, 255, 1 << 30} {
			var buf bytes.Buffer
			enc := gob.NewEncoder(&buf)
			_ = enc.Encode(1)
			_ = enc.Encode(e.VerifKeyParts())
			_ = enc.Encode(uint8(tag))
			_ = enc.Encode("x")
			_ = enc.Encode("dt")
			g.probe("entry-tag", J{"tag": tag}, []string{"binary"}, dec(buf.Bytes()))
		}
		// a value of the wrong kind for the tag; nil big integer; parts of the wrong type
		for _, pair := range [][2]any{{uint8(0), "string for int64"}, {uint8(4), "string for bigint"}, {uint8(3), int64(5)}, {uint8(1), 2}, {uint8(4), big.NewInt(-7)}} {
			var buf bytes.Buffer
			enc := gob.NewEncoder(&buf)
			_ = enc.Encode(1)
			_ = enc.Encode(e.VerifKeyParts())
			_ = enc.Encode(pair[0])
			_ = enc.Encode(pair[1])
			_ = enc.Encode("dt")
			g.probe("entry-kind", J{"tag": fmt.Sprint(pair[0]), "value": fmt.Sprintf("%T", pair[1])}, []string{"binary"}, dec(buf.Bytes()))
		}
		break
	}
	// mutation fuzzing of the valid image (supporting observation)
	for i := 0; i < n; i++ {
		b := append([]byte{}, valid...)
		for k := 0; k < 1+r.Intn(4); k++ {
			switch r.Intn(4) {
			case 0:
				b[r.Intn(len(b))] ^= byte(1 << uint(r.Intn(8)))
			case 1:
				b[r.Intn(len(b))] = byte(r.U64())
			case 2:
				p := r.Intn(len(b))
				b = append(b[:p], b[minInt(len(b), p+1+r.Intn(8)):]...)
			default:
				p := r.Intn(len(b))
				ins := []byte{0xff, 0xff, 0xff, 0x7f, 0x80, 0x00}[:1+r.Intn(5)]
				b = append(b[:p], append(append([]byte{}, ins...), b[p:]...)...)
			}
			if len(b) == 0 {
				b = []byte{1}
			}
		}
		g.probe("restore-fuzz", J{"hex": hexS(b[:minInt(len(b), 48)]), "len": len(b)}, []string{"binary", "fuzz"}, restore(b))
	}
}

// the edit puts a JSON null into a "siblings" array
func nullSibling(p jpath, rep any) bool {
	if rep == nil && len(p) >= 2 && p[len(p)-2] == "siblings" {
		return true
	}
	if arr, ok := rep.([]any); ok && len(p) >= 1 && p[len(p)-1] == "siblings" {
		for _, x := range arr {
			if x == nil {
				return true
			}
		}
	}
	return false
}

func minInt(a, b int) int {
	if a < b {
		return a
	}
	return b
}

// ---------- (c)/(d) JSON decoders and verification with members removed ----------

type jpath []any // string keys and int indices

func enumPaths(v any, pre jpath, out *[]jpath) {
	switch x := v.(type) {
	case map[string]any:
		keys := make([]string, 0, len(x))
		for k := range x {
			keys = append(keys, k)
		}
		sort.Strings(keys)
		for _, k := range keys {
			p := append(append(jpath{}, pre...), k)
			*out = append(*out, p)
			enumPaths(x[k], p, out)
		}
	case []any:
		for i := range x {
			p := append(append(jpath{}, pre...), i)
			*out = append(*out, p)
			enumPaths(x[i], p, out)
		}
	}
}

func deepCopy(v any) any {
	b, _ := json.Marshal(v)
	var o any
	_ = json.Unmarshal(b, &o)
	return o
}

// edit applies f at path p; f returns (newValue, deleteIt)
func edit(v any, p jpath, f func(old any) (any, bool)) any {
	if len(p) == 0 {
		nv, _ := f(v)
		return nv
	}
	switch x := v.(type) {
	case map[string]any:
		k, ok := p[0].(string)
		if !ok {
			return v
		}
		if len(p) == 1 {
			nv, del := f(x[k])
			if del {
				delete(x, k)
			} else {
				x[k] = nv
			}
			return x
		}
		x[k] = edit(x[k], p[1:], f)
		return x
	case []any:
		i, ok := p[0].(int)
		if !ok || i >= len(x) {
			return v
		}
		if len(p) == 1 {
			nv, del := f(x[i])
			if del {
				return append(x[:i], x[i+1:]...)
			}
			x[i] = nv
			return x
		}
		x[i] = edit(x[i], p[1:], f)
		return x
	}
	return v
}

// valueAt returns the member of a decoded JSON value at a path
func valueAt(v any, p jpath) any {
	for _, k := range p {
		switch x := v.(type) {
		case map[string]any:
			ks, ok := k.(string)
			if !ok {
				return nil
			}
			v = x[ks]
		case []any:
			i, ok := k.(int)
			if !ok || i >= len(x) {
				return nil
			}
			v = x[i]
		default:
			return nil
		}
	}
	return v
}

// resized: the string in other lengths and with one foreign character
func resized(s string) []string {
	out := []string{s[:len(s)-1], s + s[:1], s + s[:2%(len(s)+1)], s + s, strings.Repeat(s, 40), s + "00", s + strings.Repeat("0", 64), "00" + s, strings.ToUpper(s)}
	if len(s) > 2 {
		out = append(out, s[:len(s)-2], s[:len(s)/2]+"g"+s[len(s)/2+1:], s[2:])
	}
	return out
}

var replacements = []any{nil, true, 0.0, -1.0, 1e300, "", "x", []any{}, []any{nil}, map[string]any{}, map[string]any{"type": 5.0}, "zz", strings.Repeat("ab", 40)}

func (g *c12) verifiers(n int) {
	r := g.r
	for round := 0; round < 2; round++ {
		s := newVerifySetup(r, round == 1, 3)
		bj := s.is.SignBJJ(s.claim)
		sm, err := s.is.IssueSMT(s.claim)
		if err != nil {
			continue
		}
		bj = s.is.SignBJJ(s.claim) // after the insertion: one state for both proofs
		s.vc.Proof = verifiable.CredentialProofs{bj, sm}
		base, _ := json.Marshal(s.vc)
		var baseObj any
		_ = json.Unmarshal(base, &baseObj)
		reg := &verifiable.CredentialStatusResolverRegistry{}
		reg.Register(verifiable.SparseMerkleTreeProof, statusResolver{func(st verifiable.CredentialStatus) (verifiable.RevocationStatus, error) {
			return s.is.RevStatus(st.RevocationNonce), nil
		}})
		loader := s.c.loader()
		verify := func(doc any) func() (any, error) {
			return func() (any, error) {
				b, _ := json.Marshal(doc)
				var vc verifiable.W3CCredential
				if err := json.Unmarshal(b, &vc); err != nil {
					return nil, err
				}
				merklize.SetDocumentLoader(loader)
				calls := 0
				var firstErr error
				for _, pt := range []verifiable.ProofType{verifiable.BJJSignatureProofType, verifiable.Iden3SparseMerkleTreeProofType, verifiable.Iden3SparseMerkleProofType, "Unknown"} {
					for _, mode := range []string{"published", "unpublished", "nil", "noinfo"} {
						err := vc.VerifyProof(context.Background(), pt, resolverCfg{mode: mode}.resolver(&calls), verifiable.WithStatusResolverRegistry(reg))
						if err != nil && firstErr == nil {
							firstErr = err
						}
					}
				}
				_, _ = vc.GetCoreClaimFromProof(verifiable.BJJSignatureProofType)
				if _, err := json.Marshal(&vc); err != nil {
					return nil, err
				}
				if firstErr != nil {
					return nil, firstErr
				}
				return "verified", nil
			}
		}
		g.probe("verify-valid", J{}, []string{"verify"}, verify(baseObj))
		var paths []jpath
		enumPaths(baseObj, nil, &paths)
		// every member removed, one at a time
		for _, p := range paths {
			doc := edit(deepCopy(baseObj), p, func(any) (any, bool) { return nil, true })
			g.probe("verify-removed", J{"removed": fmt.Sprint(p)}, []string{"verify", "removed:1"}, verify(doc))
		}
		// tree roots removed together with a state value that is consistent with their absence (a missing root means zero):
		// the consistency check passes, what comes after it must cope with the missing member
		if top, ok := baseObj.(map[string]any); ok {
			if proofs, ok := top["proof"].([]any); ok {
				for pi := range proofs {
					for mask := 1; mask < 8; mask++ {
						doc := deepCopy(baseObj)
						pr, _ := doc.(map[string]any)["proof"].([]any)[pi].(map[string]any)
						idata, _ := pr["issuerData"].(map[string]any)
						st, _ := idata["state"].(map[string]any)
						if st == nil {
							continue
						}
						var vals []*big.Int
						for i, nm := range []string{"claimsTreeRoot", "revocationTreeRoot", "rootOfRoots"} {
							v := big.NewInt(0)
							if mask>>uint(i)&1 == 1 {
								delete(st, nm)
							} else if hx, ok := st[nm].(string); ok {
								if h, err := merkletree.NewHashFromHex(hx); err == nil {
									v = h.BigInt()
								}
							}
							vals = append(vals, v)
						}
						if sv, err := poseidon.Hash(vals); err == nil {
							st["value"] = *hexOfInt(sv)
						}
						g.probe("verify-roots-omitted-consistently", J{"proof": pi, "mask": mask}, []string{"verify", "roots-omitted-consistently"}, verify(doc))
					}
				}
			}
		}
		// pairs (inside the proofs)
		var pp []jpath
		for _, p := range paths {
			if len(p) > 0 && p[0] == "proof" {
				pp = append(pp, p)
			}
		}
		for i := 0; i < n && len(pp) > 1; i++ {
			a, b := pp[r.Intn(len(pp))], pp[r.Intn(len(pp))]
			doc := edit(deepCopy(baseObj), a, func(any) (any, bool) { return nil, true })
			doc = edit(doc, b, func(any) (any, bool) { return nil, true })
			g.probe("verify-removed", J{"removed": fmt.Sprint(a, b)}, []string{"verify", "removed:2"}, verify(doc))
		}
		// every string member of the proofs in other lengths (hex and decimal fields have fixed or bounded widths: one
		// or two characters short, one byte long, doubled, very long, a foreign character) - complete, not sampled
		for _, p := range pp {
			p := p
			orig, ok := valueAt(baseObj, p).(string)
			if !ok || orig == "" || round != 0 {
				continue
			}
			for vi, v := range resized(orig) {
				v := v
				doc := edit(deepCopy(baseObj), p, func(any) (any, bool) { return v, false })
				g.probe("verify-string-resized", J{"at": fmt.Sprint(p), "variant": vi, "len": len(v)}, []string{"verify", "resized"}, verify(doc))
			}
		}
		// every member replaced by a value of another JSON type
		for i := 0; i < 4*n; i++ {
			p := paths[r.Intn(len(paths))]
			rep := replacements[r.Intn(len(replacements))]
			doc := edit(deepCopy(baseObj), p, func(any) (any, bool) { return deepCopy(rep), false })
			tg := []string{"verify", "replaced"}
			if nullSibling(p, rep) {
				tg = append(tg, "shape:null-sibling")
			}
			g.probe("verify-replaced", J{"at": fmt.Sprint(p), "by": fmt.Sprintf("%v", rep)}, tg, verify(doc))
		}
	}
	// resolver answers lacking members
	s := newVerifySetup(r, false, 0)
	bj := s.is.SignBJJ(s.claim)
	s.vc.Proof = verifiable.CredentialProofs{bj}
	honest := s.is.RevStatus(s.is.authNonce)
	hb, _ := json.Marshal(honest)
	var hobj any
	_ = json.Unmarshal(hb, &hobj)
	var hpaths []jpath
	enumPaths(hobj, nil, &hpaths)
	for _, p := range hpaths {
		doc := edit(deepCopy(hobj), p, func(any) (any, bool) { return nil, true })
		p := p
		g.probe("status-answer-removed", J{"removed": fmt.Sprint(p)}, []string{"verify", "status"}, func() (any, error) {
			b, _ := json.Marshal(doc)
			var rs verifiable.RevocationStatus
			if err := json.Unmarshal(b, &rs); err != nil {
				return nil, err
			}
			reg := &verifiable.CredentialStatusResolverRegistry{}
			reg.Register(verifiable.SparseMerkleTreeProof, statusResolver{func(st verifiable.CredentialStatus) (verifiable.RevocationStatus, error) { return rs, nil }})
			merklize.SetDocumentLoader(s.c.loader())
			calls := 0
			if err := s.vc.VerifyProof(context.Background(), verifiable.BJJSignatureProofType, resolverCfg{mode: "unpublished"}.resolver(&calls), verifiable.WithStatusResolverRegistry(reg)); err != nil {
				return nil, err
			}
			return "verified", nil
		})
	}
}

// DID documents, authentication entries, gist proofs
const didDocSample = `{"@context":["https://www.w3.org/ns/did/v1"],"id":"did:iden3:polygon:mumbai:x","service":[{"id":"s","type":"t","serviceEndpoint":"e"}],
 "verificationMethod":[{"id":"v","type":"Iden3StateInfo2023","controller":"c","published":true,"info":{"id":"i","state":"s","replacedByState":"","createdAtTimestamp":"","replacedAtTimestamp":"","createdAtBlock":"","replacedAtBlock":""},
   "global":{"root":"r","replacedByRoot":"","createdAtTimestamp":"","replacedAtTimestamp":"","createdAtBlock":"","replacedAtBlock":"","proof":{"existence":true,"siblings":["0","5"],"type":"Iden3SparseMerkleTreeProof"}}}],
 "authentication":["did:x#k", {"id":"a","type":"JsonWebKey2020","controller":"c","publicKeyJwk":{"kty":"EC"}}],"assertionMethod":[{"id":"b","type":"t","controller":"c"}],"keyAgreement":["x"]}`

func (g *c12) decoders(n int) {
	r := g.r
	var base any
	if err := json.Unmarshal([]byte(didDocSample), &base); err != nil {
		panic(err)
	}
	var paths []jpath
	enumPaths(base, nil, &paths)
	dec := func(doc any) func() (any, error) {
		return func() (any, error) {
			b, _ := json.Marshal(doc)
			var d verifiable.DIDDocument
			if err := json.Unmarshal(b, &d); err != nil {
				return nil, err
			}
			for i := range d.Authentication {
				_ = d.Authentication[i].IsDID()
				_ = d.Authentication[i].DID()
			}
			if _, err := json.Marshal(&d); err != nil {
				return nil, err
			}
			return "decoded", nil
		}
	}
	g.probe("diddoc-valid", J{}, []string{"decode"}, dec(base))
	for _, p := range paths {
		g.probe("diddoc-removed", J{"removed": fmt.Sprint(p)}, []string{"decode"}, dec(edit(deepCopy(base), p, func(any) (any, bool) { return nil, true })))
	}
	for i := 0; i < 6*n; i++ {
		p := paths[r.Intn(len(paths))]
		rep := replacements[r.Intn(len(replacements))]
		tg := []string{"decode"}
		if nullSibling(p, rep) {
			tg = append(tg, "shape:null-sibling")
		}
		g.probe("diddoc-replaced", J{"at": fmt.Sprint(p), "by": fmt.Sprintf("%v", rep)}, tg, dec(edit(deepCopy(base), p, func(any) (any, bool) { return deepCopy(rep), false })))
	}
	// raw texts for the custom decoders
	for _, txt := range []string{``, `null`, `5`, `"x"`, `[]`, `{}`, `{"type":5}`, `[null]`, `[5]`, `{"proof":null}`, `{"proof":[null]}`, `{"proof":5}`, `{"proof":{"type":"BJJSignature2021"}}`,
		`{"proof":{"type":"BJJSignature2021","coreClaim":"zz","signature":"","issuerData":null}}`, `{"proof":[{"type":"Iden3SparseMerkleTreeProof","issuerData":5}]}`, `{"proof":{"type":null}}`,
		`{"@context":5}`, `{"credentialSubject":5}`, `{"expirationDate":"x"}`, `{"credentialStatus":[1,2]}`, `{"proof":{"type":"X","coreClaim":5}}`, `{"`} {
		txt := txt
		g.probe("credential-text", J{"text": txt}, []string{"decode"}, func() (any, error) {
			var vc verifiable.W3CCredential
			if err := json.Unmarshal([]byte(txt), &vc); err != nil {
				return nil, err
			}
			calls := 0
			_ = vc.VerifyProof(context.Background(), verifiable.BJJSignatureProofType, resolverCfg{mode: "published"}.resolver(&calls))
			_ = vc.VerifyProof(context.Background(), "X", resolverCfg{mode: "published"}.resolver(&calls))
			_, _ = vc.GetCoreClaimFromProof("X")
			_, _ = vc.ToCoreClaim(context.Background(), nil)
			return "decoded", nil
		})
		g.probe("authentication-text", J{"text": txt}, []string{"decode"}, func() (any, error) {
			var a verifiable.Authentication
			if err := a.UnmarshalJSON([]byte(txt)); err != nil {
				return nil, err
			}
			return "decoded", nil
		})
		g.probe("gistproof-text", J{"text": txt}, []string{"decode"}, func() (any, error) {
			var p verifiable.GistInfoProof
			if err := json.Unmarshal([]byte(txt), &p); err != nil {
				return nil, err
			}
			if _, err := json.Marshal(p); err != nil {
				return nil, err
			}
			return "decoded", nil
		})
	}
}

// ---------- (e) hashing arbitrary (datatype, value) pairs ----------

func (g *c12) hashing(n int) {
	r := g.r
	dts := []string{"", "x", xsdNS + "integer", xsdNS + "boolean", xsdNS + "dateTime", xsdNS + "double", xsdNS + "string", xsdNS + "positiveInteger", xsdNS + "nonPositiveInteger", xsdNS + "unknown"}
	vals := []any{nil, "", " ", "0", "-0", "1e400", "1e-400", "NaN", "Inf", "0x10", "1/0", "1/3", "9" + strings.Repeat("9", 400), "1e999999", "1e-999999", "0e100000000", "1e100000000", "1e-100000000", "0.0E-999999999", "7e2147483647", "1e9223372036854775807", "1e-9223372036854775808", "0e99999999999999999999", "1E+1000001", "5e-1000001", ".", "e", "-", "2020-01-01", "0000-00-00", "9999-12-31T23:59:59.999999999+23:59",
		"true", true, false, 0, -1, int8(-128), int16(5), int32(7), int64(-1 << 63), uint(5), uint8(255), uint64(1<<64 - 1), float32(1.5), 1e308, -1e-308, 5.0, []int{1}, map[string]any{}, struct{}{}, &struct{}{}, big.NewInt(5), time.Now()}
	for _, dt := range dts {
		for _, v := range vals {
			dt, v := dt, v
			g.probe("hash-value", J{"dt": dt, "value": fmt.Sprintf("%T:%v", v, trunc(fmt.Sprint(v), 40))}, []string{"hash"}, func() (any, error) {
				h, err := merklize.HashValue(dt, v)
				if err != nil {
					return nil, err
				}
				return h, nil
			})
		}
	}
	// every prefix of well-formed spellings (and of near misses), under every datatype: truncated input is the most common malformed input
	for _, full := range []string{"2020-01-01T00:00:00.123456789+05:30", "2020-01-01", "-12345678901234567890", "+1.5E-3", "true", "false", "0001-01-01T00:00:00Z", "2020-1-1", "20200101"} {
		for cut := 0; cut <= len(full); cut++ {
			v := full[:cut]
			for _, dt := range []string{xsdNS + "dateTime", xsdNS + "integer", xsdNS + "boolean", xsdNS + "double"} {
				dt := dt
				g.probe("hash-value", J{"dt": dt, "value": v}, []string{"hash", "prefix"}, func() (any, error) {
					h, err := merklize.HashValue(dt, v)
					if err != nil {
						return nil, err
					}
					return h, nil
				})
			}
		}
	}
	for i := 0; i < n; i++ {
		b := make([]byte, r.Intn(12))
		for j := range b {
			b[j] = "0123456789+-.eE/_xpP nN"[r.Intn(23)]
		}
		dt, v := dts[r.Intn(len(dts))], string(b)
		g.probe("hash-value", J{"dt": dt, "value": v}, []string{"hash", "fuzz"}, func() (any, error) {
			h, err := merklize.HashValue(dt, v)
			if err != nil {
				return nil, err
			}
			return h, nil
		})
	}
}

// documents whose context lives behind the repository's own document loader, served by an origin that answers with
// pages naming each other (or themselves) as rel="alternate": the load must end with an error after a bounded number of requests
func (g *c12) alternateLoops() {
	for _, shape := range []string{"self", "pair", "chain-into-loop", "long-chain", "chain-to-document"} {
		shape := shape
		o := &scriptedOrigin{docs: map[string]*orgEntry{}, budget: 2000}
		page := func(i int) string { return fmt.Sprintf("https://loop.example/page%d", i) }
		switch shape {
		case "self":
			o.docs[page(0)] = &orgEntry{alt: page(0), policy: "max-age=3600"}
		case "pair":
			o.docs[page(0)] = &orgEntry{alt: page(1), policy: "no-store"}
			o.docs[page(1)] = &orgEntry{alt: page(0), policy: "max-age=3600"}
		case "chain-into-loop":
			o.docs[page(0)] = &orgEntry{alt: page(1), policy: "none"}
			o.docs[page(1)] = &orgEntry{alt: page(2), policy: "none"}
			o.docs[page(2)] = &orgEntry{alt: page(1), policy: "none"}
		case "long-chain":
			for i := 0; i < 40; i++ {
				o.docs[page(i)] = &orgEntry{alt: page(i + 1), policy: "max-age=0"}
			}
			o.docs[page(40)] = &orgEntry{ver: 1, policy: "none"}
		default:
			o.docs[page(0)] = &orgEntry{alt: page(1), policy: "none"}
			o.docs[page(1)] = &orgEntry{alt: page(2), policy: "none"}
			o.docs[page(2)] = &orgEntry{ver: 1, policy: "none"}
		}
		loader, _ := loaderCfg{cacheMode: "memory"}.build(o)
		g.probe("alternate-links", J{"shape": shape}, []string{"loader"}, func() (any, error) {
			doc := fmt.Sprintf(`{"@context": %q, "@id": "urn:a", "x": "v"}`, page(0))
			mz, err := merklize.MerklizeJSONLD(context.Background(), strings.NewReader(doc), merklize.WithDocumentLoader(loader))
			o.mu.Lock()
			n := o.reqs
			o.mu.Unlock()
			if n > 100 {
				return nil, fmt.Errorf("%w: %d requests for one context - alternate links are followed without bound (the harness's origin stopped answering)", errHang, n)
			}
			if err != nil {
				return nil, err
			}
			return mz, nil
		})
	}
}

// resolvers: the path resolvers take a document or a context from outside as well. Nodes with several types whose
// type-scoped contexts are of every kind - well formed, not a context at all, ill-formed inside, not loadable - at every
// position of the (sorted) type list; a resolver answers with a path or an error.
func (g *c12) resolvers(n int) {
	r := g.r
	pool := []string{`{"x":"urn:v#x"}`, `{"x":"urn:v#x"}`, `5`, `"relative/ctx"`, `{"@version":2}`, `[null,5]`, `{"x":{"@id":5}}`,
		`"https://missing.example/c.jsonld"`, `true`, `{"@import":5}`, `null`, `{"@protected":true,"x":"urn:other#x"}`, `[null]`, `{"x":null}`, `{"@vocab":5}`}
	loader := &mapLoader{docs: map[string][]byte{}}
	opts := merklize.Options{DocumentLoader: loader}
	for k := 0; k < n; k++ {
		sc := [3]string{r.Pick(pool), r.Pick(pool), r.Pick(pool)}
		prot := ""
		if r.Chance(25) {
			prot = `"@protected":true,`
		}
		ctx := fmt.Sprintf(`{"@version":1.1,%s"x":"urn:top#x","p":"urn:top#p","A":{"@id":"urn:A","@context":%s},"B":{"@id":"urn:B","@context":%s},"C":{"@id":"urn:C","@context":%s},"D":"urn:D"}`,
			prot, sc[0], sc[1], sc[2])
		typeList := func() string {
			names := []string{"A", "B", "C", "D"}
			var all []string
			for _, i := range r.Perm(4) {
				all = append(all, names[i])
			}
			b, _ := json.Marshal(all[:1+r.Intn(4)])
			return string(b)
		}
		doc := []byte(fmt.Sprintf(`{"@context":%s,"@type":%s,"x":"v","p":[{"@type":%s,"x":"w"},{"@type":%s,"x":"u"}]}`, ctx, typeList(), typeList(), typeList()))
		ctxDoc := []byte(`{"@context":` + ctx + `}`)
		for _, path := range []string{"x", "p.0.x", "p.1.x", "p", "p.x"} {
			path := path
			g.probe("resolve-doc-path", J{"doc": string(doc), "path": path}, []string{"resolver", "doc-path"}, func() (any, error) {
				p, err := opts.NewPathFromDocument(doc, path)
				if err != nil {
					return nil, err
				}
				return p.Parts(), nil
			})
		}
		for _, t := range []string{"A", "B", "C", "D"} {
			t := t
			g.probe("resolve-ctx-path", J{"ctx": string(ctxDoc), "path": t + ".x"}, []string{"resolver", "ctx-path"}, func() (any, error) {
				p, err := opts.PathFromContext(ctxDoc, t+".x")
				if err != nil {
					return nil, err
				}
				return p.Parts(), nil
			})
			g.probe("resolve-ctx-type", J{"ctx": string(ctxDoc), "path": t + ".x"}, []string{"resolver", "ctx-type"}, func() (any, error) {
				dt, err := opts.TypeFromContext(ctxDoc, t+".x")
				if err != nil {
					return nil, err
				}
				return "type:" + dt, nil
			})
			g.probe("resolve-field-path", J{"ctx": string(ctxDoc), "type": t}, []string{"resolver", "field-path"}, func() (any, error) {
				p, err := opts.FieldPathFromContext(ctxDoc, t, "x")
				if err != nil {
					return nil, err
				}
				return p.Parts(), nil
			})
			g.probe("resolve-type-id", J{"ctx": string(ctxDoc), "type": t}, []string{"resolver", "type-id"}, func() (any, error) {
				id, err := opts.TypeIDFromContext(ctxDoc, t)
				if err != nil {
					return nil, err
				}
				return "id:" + id, nil
			})
		}
	}
}

// ---------- (f) field paths from outside ----------

// The dot-separated field path handed to the resolvers is caller data as well (the field name of a proof request, the
// paths of a serialization attribute). The family: the well-formed paths of a generated schema / document, the same with
// separators added in front, at the end or doubled, paths made of separators only (the empty string among them), paths
// with an index, a keyword, an unknown or odd term in the place of a term, and free mixtures of all of these with empty
// segments. Every resolver answers each of them with a path / type or an error; hashing a path that was returned, and
// asking the merklizer about it, returns as well (an error is a fine answer).
var oddSegments = []string{"0", "1", "7", "007", "4294967296", "99999999999999999999", "-1", "+1", "1e3", "@id", "@type", "@context", "@graph", "id", "type",
	"nope", " ", "a b", "é", "\x00", "ex:x", "xsd", "https://example.com/vocab/x", "_:b0"}

func ctxPathsOf(tds []*TypeDef) []string {
	var out []string
	for _, td := range tds {
		out = append(out, td.Name)
		for _, t := range td.Terms {
			out = append(out, td.Name+"."+t.Name)
			if t.Scoped && t.Child != nil {
				for _, ct := range t.Child.Terms {
					out = append(out, td.Name+"."+t.Name+"."+ct.Name)
				}
			}
		}
	}
	return out
}

func docPathsOf(nd *ANode, pre string, depth int, out *[]string) {
	if nd == nil || depth > 4 {
		return
	}
	for _, f := range nd.Fields {
		p := pre + f.Term.Name
		*out = append(*out, p)
		for i, v := range f.Vals {
			if i > 1 {
				break
			}
			*out = append(*out, fmt.Sprintf("%s.%d", p, i))
			if v.Node != nil {
				docPathsOf(v.Node, p+".", depth+1, out)
				docPathsOf(v.Node, fmt.Sprintf("%s.%d.", p, i), depth+1, out)
			}
		}
	}
}

// fieldPath draws one path of the family; the second result names the shape
func (g *c12) fieldPath(good, vocab []string) (string, string) {
	r := g.r
	seg := func() string {
		switch x := r.Intn(100); {
		case x < 30:
			return ""
		case x < 70 && len(vocab) > 0:
			return r.Pick(vocab)
		default:
			return r.Pick(oddSegments)
		}
	}
	base := ""
	if len(good) > 0 {
		base = r.Pick(good)
	}
	switch r.Intn(6) {
	case 0:
		return strings.Repeat(".", r.Intn(7)), "separators-only"
	case 1:
		// separators added to a well-formed path: in front, at the end, doubled inside (one to three of them)
		parts := strings.Split(base, ".")
		for k := 1 + r.Intn(3); k > 0; k-- {
			at := r.Intn(len(parts) + 1)
			parts = append(parts[:at], append([]string{""}, parts[at:]...)...)
		}
		return strings.Join(parts, "."), "separators-added"
	case 2:
		parts := strings.Split(base, ".")
		parts[r.Intn(len(parts))] = r.Pick(oddSegments)
		return strings.Join(parts, "."), "term-replaced"
	case 3:
		parts := strings.Split(base, ".")
		return strings.Join(parts[:r.Intn(len(parts)+1)], "."), "prefix"
	case 4:
		return base, "well-formed"
	default:
		var parts []string
		for k := 1 + r.Intn(5); k > 0; k-- {
			parts = append(parts, seg())
		}
		return strings.Join(parts, "."), "mixture"
	}
}

func (g *c12) fieldPaths(n int) {
	r := g.r
	for round := 0; round < n; round++ {
		dg := NewDocGen(r, 1+r.Intn(2))
		dg.noGraph = r.Bool()
		root := dg.node(dg.sch.Root, 0, r.Bool())
		pres := plainPresentation(r)
		pres.ctxMode = r.Intn(3)
		doc := dg.Render(root, pres)
		ctxDoc := dg.ContextDoc()
		loader := &mapLoader{docs: map[string][]byte{dg.sch.URL: ctxDoc}}
		opts := merklize.Options{DocumentLoader: loader}
		var tds []*TypeDef
		dg.allTypes(dg.sch.Root, &tds)
		var vocab, typeNames []string
		for _, td := range tds {
			vocab = append(vocab, td.Name)
			typeNames = append(typeNames, td.Name)
			for _, t := range td.Terms {
				vocab = append(vocab, t.Name)
			}
		}
		ctxGood := ctxPathsOf(tds)
		var docGood []string
		docPathsOf(root, "", 0, &docGood)
		if len(docGood) == 0 {
			docGood = []string{"id"}
		}
		mz, mzErr := merklize.MerklizeJSONLD(context.Background(), bytes.NewReader(doc), merklize.WithDocumentLoader(loader))
		usable := func(p merklize.Path) (any, error) {
			k, err := p.MtEntry()
			if err != nil {
				return nil, err
			}
			return k, nil
		}
		ctxS, docS := trunc(string(ctxDoc), 3000), trunc(string(doc), 3000)
		for i := 0; i < 6; i++ {
			// ---- paths into a context ----
			path, shape := g.fieldPath(ctxGood, vocab)
			tg := []string{"resolver", "field-path-family", "pathshape:" + shape}
			pkg := r.Bool() // the package-level functions and the methods of Options are both entry points
			g.probe("path-ctx-type", J{"ctx": ctxS, "path": path, "pkg": pkg}, tg, func() (any, error) {
				var dt string
				var err error
				if pkg {
					dt, err = merklize.TypeFromContext(ctxDoc, path)
				} else {
					dt, err = opts.TypeFromContext(ctxDoc, path)
				}
				if err != nil {
					return nil, err
				}
				return "type:" + dt, nil
			})
			g.probe("path-ctx-path", J{"ctx": ctxS, "path": path, "pkg": pkg}, tg, func() (any, error) {
				var p merklize.Path
				var err error
				if pkg {
					p, err = merklize.NewPathFromContext(ctxDoc, path)
				} else {
					p, err = opts.PathFromContext(ctxDoc, path)
				}
				if err != nil {
					return nil, err
				}
				return usable(p)
			})
			g.probe("path-ctx-type-id", J{"ctx": ctxS, "type": path, "pkg": pkg}, tg, func() (any, error) {
				var id string
				var err error
				if pkg {
					id, err = merklize.TypeIDFromContext(ctxDoc, path)
				} else {
					id, err = opts.TypeIDFromContext(ctxDoc, path)
				}
				if err != nil {
					return nil, err
				}
				return "id:" + id, nil
			})
			// type and field given separately: either of them (or both) from the family
			ctxType, field := r.Pick(typeNames), path
			if strings.HasPrefix(path, ctxType+".") && r.Bool() {
				field = strings.TrimPrefix(path, ctxType+".")
			}
			switch r.Intn(4) {
			case 0:
				ctxType, _ = g.fieldPath(ctxGood, vocab)
			case 1:
				ctxType, field = path, r.Pick(vocab)
			}
			g.probe("path-ctx-field", J{"ctx": ctxS, "type": ctxType, "field": field, "pkg": pkg}, tg, func() (any, error) {
				var p merklize.Path
				var err error
				if pkg {
					p, err = merklize.NewFieldPathFromContext(ctxDoc, ctxType, field)
				} else {
					p, err = opts.FieldPathFromContext(ctxDoc, ctxType, field)
				}
				if err != nil {
					return nil, err
				}
				return usable(p)
			})
			// ---- paths into a document ----
			dpath, dshape := g.fieldPath(docGood, vocab)
			dtg := []string{"resolver", "field-path-family", "pathshape:" + dshape}
			g.probe("path-doc-path", J{"doc": docS, "path": dpath}, dtg, func() (any, error) {
				p, err := opts.NewPathFromDocument(doc, dpath)
				if err != nil {
					return nil, err
				}
				return usable(p)
			})
			if mzErr == nil && mz != nil {
				g.probe("path-merklizer", J{"doc": docS, "path": dpath}, dtg, func() (any, error) {
					p, err := mz.ResolveDocPath(dpath)
					if err != nil {
						return nil, err
					}
					// a path the merklizer resolved is one it can be asked about
					_, _, _ = mz.Proof(context.Background(), p)
					_, _ = mz.RawValue(p)
					_, _ = mz.JSONLDType(p)
					_, _ = mz.Entry(p)
					return usable(p)
				})
			}
		}
	}
}

func genC12(out *Out, r *Rng, tier string, n int, shard int) {
	g := &c12{out: out, r: r}
	g.resolvers(3 * n)
	if shard == 0 {
		g.alternateLoops()
	}
	g.documents(n)
	g.binaries(8 * n)
	g.verifiers(n)
	g.decoders(n)
	g.hashing(4 * n)
	// datasets with cycles / shared nodes / dangling references vs the model
	for i := 0; i < 6*n; i++ {
		emitDataset(out, r, hPoseidon())
	}
	// last, so that the cases above are the ones the same seed gave before this family existed
	g.fieldPaths(4 * n)
}

func init() { gens["C12"] = genC12 }
