package main

import (
	"bufio"
	"bytes"
	"encoding/hex"
	"encoding/json"
	"errors"
	"fmt"
	"math/big"
	"os"
	"runtime"
	"runtime/debug"
	"strconv"
	"strings"
	"sync"
	"time"

	"github.com/iden3/go-iden3-crypto/constants"
	"github.com/iden3/go-iden3-crypto/poseidon"
	"github.com/iden3/go-schema-processor/v2/merklize"
)

// ---------- deterministic PRNG (splitmix64) ----------

type Rng struct{ s uint64 }

func NewRng(seed uint64) *Rng { return &Rng{s: seed*0x9E3779B97F4A7C15 + 0x1234567} }
func (r *Rng) U64() uint64 {
	r.s += 0x9E3779B97F4A7C15
	z := r.s
	z = (z ^ (z >> 30)) * 0xBF58476D1CE4E5B9
	z = (z ^ (z >> 27)) * 0x94D049BB133111EB
	return z ^ (z >> 31)
}
func (r *Rng) Intn(n int) int {
	if n <= 0 {
		return 0
	}
	return int(r.U64() % uint64(n))
}
func (r *Rng) Bool() bool        { return r.U64()&1 == 1 }
func (r *Rng) Chance(p int) bool { return r.Intn(100) < p }
func (r *Rng) Pick(xs []string) string {
	return xs[r.Intn(len(xs))]
}
func (r *Rng) Perm(n int) []int {
	p := make([]int, n)
	for i := range p {
		p[i] = i
	}
	for i := n - 1; i > 0; i-- {
		j := r.Intn(i + 1)
		p[i], p[j] = p[j], p[i]
	}
	return p
}
func (r *Rng) BigBelow(n *big.Int) *big.Int {
	if n.Sign() <= 0 {
		return big.NewInt(0)
	}
	nb := (n.BitLen() + 7) / 8
	buf := make([]byte, nb+8)
	for i := range buf {
		buf[i] = byte(r.U64())
	}
	x := new(big.Int).SetBytes(buf)
	return x.Mod(x, n)
}

// ---------- case output ----------

type J = map[string]any

type Case struct {
	ID   string   `json:"id"`
	Op   string   `json:"op"`
	In   any      `json:"in"`
	Impl any      `json:"impl"`
	Prop *PropRes `json:"prop,omitempty"`
	Tags []string `json:"tags,omitempty"`
	NT   bool     `json:"nt"` // non-trivial by the property's rule
}

type PropRes struct {
	OK  bool   `json:"ok"`
	Why string `json:"why,omitempty"`
}

type Out struct {
	mu   sync.Mutex
	w    *bufio.Writer
	n    int
	pf   string
	path string
}

func NewOut(path, prefix string) (*Out, func()) {
	f, err := os.Create(path)
	if err != nil {
		panic(err)
	}
	o := &Out{w: bufio.NewWriterSize(f, 1<<20), pf: prefix, path: path}
	_ = os.Remove(path + ".pending")
	return o, func() { o.w.Flush(); f.Close() }
}

// the case being executed, for the watchdogs
var curMu sync.Mutex
var curCase *Case
var curOut *Out
var mustExit bool

func setCurrent(o *Out, c *Case) {
	curMu.Lock()
	curOut, curCase = o, c
	curMu.Unlock()
	// a fatal runtime error (out of memory, stack overflow) kills the process without running any deferred code:
	// leave a note naming the case being executed, and make sure everything before it is on disk
	if o != nil && c != nil && o.path != "" {
		o.mu.Lock()
		o.w.Flush()
		o.mu.Unlock()
		if b, err := json.Marshal(c); err == nil {
			_ = os.WriteFile(o.path+".pending", b, 0o644)
		}
	} else if o == nil && curPath != "" {
		_ = os.Remove(curPath + ".pending")
	}
	if o != nil {
		curPath = o.path
	}
}

var curPath string

// abortWith records the current case as a hang / memory blow-up and ends the process: a runaway goroutine cannot be stopped any other way.
func abortWith(class string) {
	curMu.Lock()
	o, c := curOut, curCase
	curMu.Unlock()
	if o != nil && c != nil {
		cc := *c
		cc.Impl = J{"err": "hang"}
		cc.Prop = &PropRes{OK: false, Why: class + ": the call did not return in bounded time/memory"}
		cc.Tags = append(cc.Tags, "abort:"+class)
		cc.NT = true
		mustExit = false
		o.Emit(cc)
		o.mu.Lock()
		o.w.Flush()
	}
	os.Exit(3)
}

func startMemWatchdog(limit uint64) {
	go func() {
		var ms runtime.MemStats
		for {
			time.Sleep(100 * time.Millisecond)
			runtime.ReadMemStats(&ms)
			if ms.HeapAlloc > limit {
				abortWith("memory")
			}
		}
	}()
}

func (o *Out) Emit(c Case) {
	o.mu.Lock()
	defer o.mu.Unlock()
	if mustExit {
		// a watchdog fired during this case: record it, then stop (the stuck goroutine keeps burning CPU and memory)
		defer func() { o.w.Flush(); os.Exit(3) }()
	}
	o.n++
	if c.ID == "" {
		c.ID = fmt.Sprintf("%s-%d", o.pf, o.n)
	}
	var buf bytes.Buffer
	enc := json.NewEncoder(&buf)
	enc.SetEscapeHTML(false)
	if err := enc.Encode(c); err != nil {
		panic(err)
	}
	o.w.Write(buf.Bytes())
}

func okJ(v any) J    { return J{"ok": v} }
func errJ(e error) J { return J{"err": errClass(e)} }

// error classes the properties distinguish; everything else is "err"
func errClass(e error) string {
	if e == nil {
		return ""
	}
	var pe *panicErr
	if errors.As(e, &pe) {
		return "panic"
	}
	if errors.Is(e, errHang) {
		return "hang"
	}
	return "err"
}

type panicErr struct {
	v     any
	stack string
}

func (p *panicErr) Error() string { return fmt.Sprintf("panic: %v @ %s", p.v, p.stack) }

// the innermost non-runtime frames of the panicking goroutine
func shortStack() string {
	lines := strings.Split(string(debug.Stack()), "\n")
	var out []string
	for _, l := range lines {
		l = strings.TrimSpace(l)
		if strings.HasPrefix(l, "/") && !strings.Contains(l, "/runtime/") && !strings.Contains(l, "harness/common.go") {
			if i := strings.LastIndex(l, " +0x"); i > 0 {
				l = l[:i]
			}
			out = append(out, l)
			if len(out) >= 4 {
				break
			}
		}
	}
	return strings.Join(out, " < ")
}

var errHang = errors.New("hang")
var errNilNil = errors.New("nil result with nil error")

// guard runs f under recover and a watchdog.
func guard[T any](timeout time.Duration, f func() (T, error)) (res T, err error) {
	type rt struct {
		v T
		e error
	}
	ch := make(chan rt, 1)
	go func() {
		defer func() {
			if r := recover(); r != nil {
				var z T
				ch <- rt{z, &panicErr{r, shortStack()}}
			}
		}()
		v, e := f()
		ch <- rt{v, e}
	}()
	// the watchdog measures wall time: on an overloaded machine a healthy operation may be slow, so the wait is extended
	// while the load average says the cores are oversubscribed (an operation that really hangs is still reported,
	// later; one that eats memory is stopped by the heap watchdog)
	timeout = time.Duration(float64(timeout) * timeoutScale())
	for ext := 0; ; ext++ {
		select {
		case x := <-ch:
			return x.v, x.e
		case <-time.After(timeout):
		}
		if ext >= 8 || !overloaded() {
			var z T
			mustExit = true
			return z, errHang
		}
	}
}

func timeoutScale() float64 {
	if v, err := strconv.ParseFloat(os.Getenv("VERIF_TIMEOUT_SCALE"), 64); err == nil && v >= 1 {
		return v
	}
	return 1
}

func overloaded() bool {
	b, err := os.ReadFile("/proc/loadavg")
	if err != nil {
		return false
	}
	f := strings.Fields(string(b))
	if len(f) == 0 {
		return false
	}
	l, err := strconv.ParseFloat(f[0], 64)
	return err == nil && l > 1.25*float64(runtime.NumCPU())
}

func bigS(b *big.Int) any {
	if b == nil {
		return nil
	}
	return b.String()
}

func hexS(b []byte) string { return hex.EncodeToString(b) }

// ---------- hashers (identical definitions in lean/Gsp/Model/Hasher.lean) ----------

type saltedHasher struct{}

func (saltedHasher) Hash(in []*big.Int) (*big.Int, error) { return poseidon.Hash(in) }
func (saltedHasher) HashBytes(m []byte) (*big.Int, error) {
	return merklize.PoseidonHasher{}.HashBytes(append([]byte("salt:"), m...))
}
func (saltedHasher) Prime() *big.Int { return new(big.Int).Set(constants.Q) }

type shiftedHasher struct{}

func (shiftedHasher) Hash(in []*big.Int) (*big.Int, error) {
	x := append(append([]*big.Int{}, in...), big.NewInt(7))
	return poseidon.Hash(x)
}
func (shiftedHasher) HashBytes(m []byte) (*big.Int, error) {
	return merklize.PoseidonHasher{}.HashBytes(m)
}
func (shiftedHasher) Prime() *big.Int { return new(big.Int).Set(constants.Q) }

// shared: Prime() hands out the hasher's own number, not a copy (the Hasher interface does not ask for one): the library
// must treat it as read-only
type smallHasher struct {
	p      *big.Int
	shared bool
}

func (s smallHasher) Hash(in []*big.Int) (*big.Int, error) {
	if len(in) == 0 {
		return nil, errors.New("empty")
	}
	for _, x := range in {
		if x.Sign() < 0 || x.Cmp(s.p) >= 0 {
			return nil, errors.New("not in field")
		}
	}
	acc := new(big.Int).Mod(big.NewInt(int64(len(in)+1)), s.p)
	for _, x := range in {
		acc.Mul(acc, big.NewInt(31))
		acc.Add(acc, x)
		acc.Add(acc, big.NewInt(7))
		acc.Mod(acc, s.p)
	}
	return acc, nil
}
func (s smallHasher) HashBytes(m []byte) (*big.Int, error) {
	acc := new(big.Int).Mod(big.NewInt(5), s.p)
	for _, b := range m {
		acc.Mul(acc, big.NewInt(257))
		acc.Add(acc, big.NewInt(int64(b)+1))
		acc.Mod(acc, s.p)
	}
	return acc, nil
}
func (s smallHasher) Prime() *big.Int {
	if s.shared {
		return s.p
	}
	return new(big.Int).Set(s.p)
}

// poison hasher: installed as the global default while a custom hasher is under test.
type poisonHasher struct{}

func (poisonHasher) Hash(in []*big.Int) (*big.Int, error) { return big.NewInt(666), nil }
func (poisonHasher) HashBytes(m []byte) (*big.Int, error) { return big.NewInt(667), nil }
func (poisonHasher) Prime() *big.Int                      { return big.NewInt(1009) }

type HSpec struct {
	Name  string
	JSON  any
	H     merklize.Hasher
	Prime *big.Int
}

func hPoseidon() HSpec {
	return HSpec{"poseidon", "poseidon", merklize.PoseidonHasher{}, new(big.Int).Set(constants.Q)}
}
func hSalted() HSpec { return HSpec{"salted", "salted", saltedHasher{}, new(big.Int).Set(constants.Q)} }
func hShifted() HSpec {
	return HSpec{"shifted", "shifted", shiftedHasher{}, new(big.Int).Set(constants.Q)}
}
func hSmall(p int64) HSpec {
	bp := big.NewInt(p)
	return HSpec{fmt.Sprintf("small%d", p), J{"small": bp.String()}, smallHasher{p: bp, shared: true}, big.NewInt(p)}
}

// hSmallShared: the same hasher handing out its own prime
func hSmallShared(p int64) HSpec {
	return HSpec{fmt.Sprintf("small%d", p), J{"small": fmt.Sprint(p)}, smallHasher{p: big.NewInt(p), shared: true}, big.NewInt(p)}
}

func allHashers() []HSpec {
	return []HSpec{hPoseidon(), hSalted(), hShifted(), hSmall(251), hSmall(65537), hSmall(2305843009213693951)}
}

func jsonUnmarshal(b []byte, v any) error { return json.Unmarshal(b, v) }

func bigOf(x int64) *big.Int { return big.NewInt(x) }

func bytesBuf() *bytes.Buffer { return &bytes.Buffer{} }

// dumpFailure writes the full inputs of a failing case under $VERIF_DUMP (debugging aid; no effect when unset).
func dumpFailure(name string, files map[string][]byte) {
	d := os.Getenv("VERIF_DUMP")
	if d == "" {
		return
	}
	dumpSeq++
	dir := fmt.Sprintf("%s/%s-%d", d, name, dumpSeq)
	_ = os.MkdirAll(dir, 0o755)
	for n, b := range files {
		_ = os.WriteFile(dir+"/"+n, b, 0o644)
	}
}

var dumpSeq int
