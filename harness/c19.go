package main

import (
	"bytes"
	"context"
	"encoding/json"
	"errors"
	"fmt"
	"io"
	"net/http"
	"reflect"
	"strings"
	"sync"
	"time"

	"github.com/iden3/go-schema-processor/v2/loaders"
	"github.com/iden3/go-schema-processor/v2/merklize"
	"github.com/piprate/json-gold/ld"
	"github.com/pquerna/cachecontrol"
)

// ---------- scriptable origin ----------

type orgEntry struct {
	ver    int
	policy string
	fail   string // "", "404", "500", "transport"
	alt    string // when set: a page that is no JSON document, with a Link rel="alternate" type="application/ld+json" to this URL
	// optional presentation of the response (zero values = the response as it always was)
	ctype    string // Content-Type ("" = application/ld+json for a document, text/html for a page)
	ctx      string // when set: the response also carries a Link rel="http://www.w3.org/ns/json-ld#context" to this URL
	ctxFirst bool   // a page's context link stands before its alternate link
	altRef   string // how the alternate's target is written in the header ("" = e.alt; a relative reference otherwise)
}

// the Link header value of an entry ("" = none)
func (e *orgEntry) linkHeader() string {
	var links []string
	if e.alt != "" {
		ref := e.alt
		if e.altRef != "" {
			ref = e.altRef
		}
		links = append(links, fmt.Sprintf(`<%s>; rel="alternate"; type="application/ld+json"`, ref))
	}
	if e.ctx != "" {
		c := fmt.Sprintf(`<%s>; rel="http://www.w3.org/ns/json-ld#context"`, e.ctx)
		if e.ctxFirst {
			links = append([]string{c}, links...)
		} else {
			links = append(links, c)
		}
	}
	return strings.Join(links, ", ")
}

type scriptedOrigin struct {
	mu   sync.Mutex
	docs map[string]*orgEntry
	reqs int
	log  []string // URLs requested, in order
	// the harness protects itself against a loader that follows alternate links without end: after this many requests
	// since the last reset the origin answers with transport errors (0 = no limit)
	budget, spent int
}

func policyHeaders(policy string, now time.Time) http.Header {
	h := http.Header{"Content-Type": {"application/ld+json"}}
	switch {
	case strings.HasPrefix(policy, "max-age="), policy == "no-store", policy == "private":
		h.Set("Cache-Control", policy)
	case policy == "expires+3600":
		h.Set("Date", now.UTC().Format(http.TimeFormat))
		h.Set("Expires", now.UTC().Add(3600*time.Second).Format(http.TimeFormat))
	case policy == "expires-10":
		h.Set("Date", now.UTC().Format(http.TimeFormat))
		h.Set("Expires", now.UTC().Add(-10*time.Second).Format(http.TimeFormat))
	case policy == "expires-epoch":
		// an explicit expiry at the start of Unix time, no Date: stale on arrival (and a value that "zero" might stand for elsewhere)
		h.Set("Expires", "Thu, 01 Jan 1970 00:00:00 GMT")
	case policy == "expires-epoch+1":
		h.Set("Expires", "Thu, 01 Jan 1970 00:00:01 GMT")
	case policy == "max-age+no-store":
		h.Set("Cache-Control", "max-age=3600, no-store")
	}
	return h
}

// oracle column: what pquerna/cachecontrol itself says about a response with these headers
func policyOracle(policy string) (storable bool, lifetime int) {
	now := time.Now()
	req, _ := http.NewRequest("GET", "http://x/", http.NoBody)
	res := &http.Response{StatusCode: 200, Header: policyHeaders(policy, now), Request: req}
	reasons, exp, err := cachecontrol.CachableResponse(req, res, cachecontrol.Options{})
	if err != nil || len(reasons) > 0 {
		return false, 0
	}
	if exp.IsZero() {
		return true, -1 // stored, never fresh
	}
	return true, int(exp.Sub(now).Round(time.Second) / time.Second)
}

func (o *scriptedOrigin) RoundTrip(req *http.Request) (*http.Response, error) {
	o.mu.Lock()
	defer o.mu.Unlock()
	o.reqs++
	o.log = append(o.log, req.URL.String())
	o.spent++
	if o.budget > 0 && o.spent > o.budget {
		return nil, errors.New("origin: request budget of the harness exhausted")
	}
	e, ok := o.docs[req.URL.String()]
	if ok && e.alt != "" && e.fail == "" {
		h := policyHeaders(e.policy, time.Now())
		h.Set("Content-Type", "text/html")
		if e.ctype != "" {
			h.Set("Content-Type", e.ctype)
		}
		h.Set("Link", e.linkHeader())
		return &http.Response{StatusCode: 200, Body: io.NopCloser(strings.NewReader("<html><body>see the alternate</body></html>")), Header: h, Request: req}, nil
	}
	if !ok || e.fail == "404" {
		return &http.Response{StatusCode: 404, Body: io.NopCloser(strings.NewReader("not found")), Header: http.Header{}, Request: req}, nil
	}
	if e.fail == "500" {
		return &http.Response{StatusCode: 500, Body: io.NopCloser(strings.NewReader(`{"v": 999}`)), Header: policyHeaders("max-age=3600", time.Now()), Request: req}, nil
	}
	if e.fail == "transport" {
		return nil, errors.New("connection reset")
	}
	if e.fail == "garbage" || e.fail == "empty-body" {
		// a 200 answer that permits caching but whose body is not a JSON document: a failed response all the same
		body := `{"@context": {"x": "urn:x"}, "v": `
		if e.fail == "empty-body" {
			body = ""
		}
		return &http.Response{StatusCode: 200, Body: io.NopCloser(strings.NewReader(body)), Header: policyHeaders("max-age=3600", time.Now()), Request: req}, nil
	}
	body := fmt.Sprintf(`{"@context": {"x": "urn:x"}, "v": %d}`, e.ver)
	h := policyHeaders(e.policy, time.Now())
	if e.ctype != "" {
		h.Set("Content-Type", e.ctype)
	}
	if l := e.linkHeader(); l != "" {
		h.Set("Link", l)
	}
	return &http.Response{StatusCode: 200, Body: io.NopCloser(bytes.NewReader([]byte(body))), Header: h, Request: req}, nil
}

type fakeIPFS struct{ o *scriptedOrigin }

func (f fakeIPFS) Cat(path string) (io.ReadCloser, error) {
	f.o.mu.Lock()
	defer f.o.mu.Unlock()
	f.o.reqs++
	f.o.log = append(f.o.log, "ipfs-node:"+path)
	e, ok := f.o.docs["ipfs-node:"+path]
	if !ok || e.fail != "" {
		return nil, errors.New("ipfs: not found")
	}
	return io.NopCloser(strings.NewReader(fmt.Sprintf(`{"v": %d}`, e.ver))), nil
}

// a custom cache engine with a virtual clock: time "passes" without sleeping
type virtualEngine struct {
	inner   loaders.CacheEngine
	mu      sync.Mutex
	elapsed time.Duration
}

func (v *virtualEngine) Get(key string) (*ld.RemoteDocument, time.Time, error) {
	doc, exp, err := v.inner.Get(key)
	v.mu.Lock()
	defer v.mu.Unlock()
	return doc, exp.Add(-v.elapsed), err
}
func (v *virtualEngine) Set(key string, doc *ld.RemoteDocument, exp time.Time) error {
	v.mu.Lock()
	e := v.elapsed
	v.mu.Unlock()
	if exp.IsZero() {
		return v.inner.Set(key, doc, exp)
	}
	return v.inner.Set(key, doc, exp.Add(e))
}
func (v *virtualEngine) tick(n int) {
	v.mu.Lock()
	v.elapsed += time.Duration(n) * time.Second
	v.mu.Unlock()
}

type loaderCfg struct {
	cacheMode string // memory | none | virtual
	embedded  map[string]int
	ipfsCli   bool
	ipfsGW    string
}

func (c loaderCfg) J() J {
	emb := J{}
	for u, v := range c.embedded {
		emb[u] = v
	}
	var gw any
	if c.ipfsGW != "" {
		gw = c.ipfsGW
	}
	return J{"cacheOn": c.cacheMode != "none", "embedded": emb, "ipfsClient": c.ipfsCli, "ipfsGateway": gw}
}

func (c loaderCfg) build(o *scriptedOrigin) (ld.DocumentLoader, *virtualEngine) {
	opts := []loaders.DocumentLoaderOption{loaders.WithHTTPClient(&http.Client{Transport: o})}
	var ve *virtualEngine
	var memOpts []loaders.MemoryCacheEngineOption
	for u, v := range c.embedded {
		memOpts = append(memOpts, loaders.WithEmbeddedDocumentBytes(u, []byte(fmt.Sprintf(`{"v": %d}`, v))))
	}
	switch c.cacheMode {
	case "none":
		opts = append(opts, loaders.WithCacheEngine(nil))
	case "virtual":
		inner, _ := loaders.NewMemoryCacheEngine(memOpts...)
		ve = &virtualEngine{inner: inner}
		opts = append(opts, loaders.WithCacheEngine(ve))
	default:
		if len(memOpts) > 0 {
			inner, _ := loaders.NewMemoryCacheEngine(memOpts...)
			opts = append(opts, loaders.WithCacheEngine(inner))
		}
	}
	var cli loaders.IPFSClient
	if c.ipfsCli {
		cli = fakeIPFS{o}
	}
	return loaders.NewDocumentLoader(cli, c.ipfsGW, opts...), ve
}

func docVersion(d *ld.RemoteDocument) int {
	if d == nil {
		return -1
	}
	if m, ok := d.Document.(map[string]any); ok {
		if f, ok := m["v"].(float64); ok {
			return int(f)
		}
	}
	return -1
}

var c19Policies = []string{"max-age=3600", "max-age=0", "max-age=3", "no-store", "private", "none", "expires+3600", "expires-10", "max-age+no-store", "expires-epoch", "expires-epoch+1"}

func emitLoaderHistory(out *Out, r *Rng) {
	cfg := loaderCfg{cacheMode: []string{"memory", "none", "virtual", "virtual", "virtual"}[r.Intn(5)]}
	urls := []string{"https://ctx.example/a.jsonld", "http://ctx.example/b.jsonld", "https://other.example/c"}
	oddURL := "" // loaded, never served and never the target of a link (link targets go through URL resolution, which respells them)
	if r.Chance(35) && cfg.cacheMode != "none" {
		cfg.embedded = map[string]int{urls[r.Intn(2)]: 1000 + r.Intn(9)}
		if r.Chance(40) {
			// a document embedded under a URL that is spelled unusually: it is that exact string that is served without a request
			odd := r.Pick([]string{"https://ctx.example/emb.jsonld#", "https://ctx.example/päth/ü.jsonld", "https://ctx.example/a b.jsonld", "https://ctx.example/x|y.jsonld",
				"https://ctx.example/%7Euser/ctx.jsonld", "https://ctx.example/q.jsonld?", "https://CTX.example/Upper.jsonld", "https://ctx.example:443/p.jsonld", "https://ctx.example/./a/../b.jsonld", "https://ctx.example//double//slash.jsonld"})
			cfg.embedded[odd] = 2000 + r.Intn(9)
			oddURL = odd
		}
	}
	if r.Chance(40) {
		cfg.ipfsCli = r.Bool()
		if r.Bool() {
			cfg.ipfsGW = []string{"https://gw.example", "https://gw.example/", "http://gw.example///"}[r.Intn(3)]
		}
	}
	ipfsURLs := []string{"ipfs://QmAAA/schema.json", "ipfs://QmBBB", "ipfs:///QmCCC/x"}
	// pages that are no JSON documents and point to one with an alternate link (to a document, to another page, to themselves)
	pageURLs := []string{"https://ctx.example/page1", "https://pages.example/page2"}
	altMode := r.Chance(45)
	o := &scriptedOrigin{docs: map[string]*orgEntry{}, budget: 300}
	loader, ve := cfg.build(o)
	var ops []any
	var impl []any
	var why []string
	type recv struct {
		u    string
		v    int
		t, l int
		via  string // the alternate target the document was obtained from ("" = served under u itself)
	}
	serveAlt := func(u string) {
		targets := append(append([]string{}, urls...), pageURLs...)
		t := targets[r.Intn(len(targets))]
		if r.Chance(60) {
			t = urls[r.Intn(len(urls))]
		}
		pol := c19Policies[r.Intn(len(c19Policies))]
		if r.Chance(50) {
			pol = "max-age=3600"
		}
		st, lt := policyOracle(pol)
		o.mu.Lock()
		o.docs[u] = &orgEntry{alt: t, policy: pol}
		o.mu.Unlock()
		ops = append(ops, J{"o": "serveAlt", "u": u, "target": t, "storable": st, "lifetime": lt, "policy": pol})
	}
	var received []recv
	var shapeTags []string
	now := 0
	nops := 4 + r.Intn(9)
	keyOf := func(u string) string { // where the document of u lives at the origin
		if strings.HasPrefix(u, "ipfs://") {
			p := u[len("ipfs://"):]
			if cfg.ipfsCli {
				return "ipfs-node:" + p
			}
			return strings.TrimRight(cfg.ipfsGW, "/") + "/ipfs/" + strings.TrimLeft(p, "/")
		}
		return u
	}
	// most histories start with an origin that serves every URL
	if r.Chance(85) {
		for _, u := range append(append([]string{}, urls...), ipfsURLs...) {
			if strings.HasPrefix(u, "ipfs://") && !cfg.ipfsCli && cfg.ipfsGW == "" {
				continue
			}
			pol := c19Policies[r.Intn(len(c19Policies))]
			if r.Chance(40) {
				pol = "max-age=3"
			}
			st, lt := policyOracle(pol)
			o.docs[keyOf(u)] = &orgEntry{ver: 1, policy: pol}
			ops = append(ops, J{"o": "serve", "u": keyOf(u), "v": 1, "storable": st, "lifetime": lt, "policy": pol})
		}
	}
	if altMode {
		for _, u := range pageURLs {
			serveAlt(u)
		}
	}
	for k := 0; k < nops; k++ {
		x := r.Intn(100)
		allU := append(append([]string{}, urls...), ipfsURLs...)
		u := allU[r.Intn(len(allU))]
		if r.Chance(70) {
			u = urls[r.Intn(len(urls))]
		}
		if altMode && r.Chance(40) {
			u = pageURLs[r.Intn(len(pageURLs))]
		}
		if oddURL != "" && x >= 42 && r.Chance(30) {
			u = oddURL
		}
		isPage := u == pageURLs[0] || u == pageURLs[1]
		switch {
		case x < 22 && isPage && r.Chance(70):
			serveAlt(u)
		case x < 22:
			pol := c19Policies[r.Intn(len(c19Policies))]
			st, lt := policyOracle(pol)
			e := o.docs[keyOf(u)]
			ver := 1
			if e != nil {
				ver = e.ver + 1
			}
			o.mu.Lock()
			o.docs[keyOf(u)] = &orgEntry{ver: ver, policy: pol}
			o.mu.Unlock()
			ops = append(ops, J{"o": "serve", "u": keyOf(u), "v": ver, "storable": st, "lifetime": lt, "policy": pol})
		case x < 28:
			o.mu.Lock()
			old := o.docs[keyOf(u)]
			ne := &orgEntry{fail: []string{"404", "500", "transport", "garbage", "empty-body"}[r.Intn(5)]}
			if old != nil {
				ne.ver = old.ver
			}
			o.docs[keyOf(u)] = ne
			o.mu.Unlock()
			ops = append(ops, J{"o": "fail", "u": keyOf(u)})
		case x < 42 && ve != nil:
			n := 5
			ve.tick(n)
			now += n
			ops = append(ops, J{"o": "tick", "n": n})
		default:
			if r.Chance(6) {
				u = []string{"ftp://x/y", "file:///etc/passwd", "", "HTTP://UPPER.example/x", "ipfs:/one-slash"}[r.Intn(5)]
			}
			o.mu.Lock()
			before := o.reqs
			logFrom := len(o.log)
			o.spent = 0
			o.mu.Unlock()
			doc, err := guard(5*time.Second, func() (*ld.RemoteDocument, error) {
				d, e := loader.LoadDocument(u)
				if e == nil && d == nil {
					return nil, errNilNil
				}
				return d, e
			})
			o.mu.Lock()
			nreq := o.reqs - before
			requested := append([]string{}, o.log[logFrom:]...)
			snapshot := map[string]orgEntry{}
			for k, e := range o.docs {
				snapshot[k] = *e
			}
			o.mu.Unlock()
			// what may be returned for a URL now. strict: a document stored under a page's URL is allowed only while it is
			// still allowed for the alternate target it came from; lenient: the page's own response decides (what the code does)
			var allowedFn func(w string, depth int, strict bool) map[int]string
			allowedFn = func(w string, depth int, strict bool) map[int]string {
				al := map[int]string{}
				if depth > 14 {
					return al
				}
				if e, ok := snapshot[keyOf(w)]; ok && e.fail == "" {
					if e.alt == "" {
						al[e.ver] = "current"
					} else {
						for v := range allowedFn(e.alt, depth+1, strict) {
							al[v] = "current-through-alternate"
						}
					}
				}
				for _, rc := range received {
					if rc.u == keyOf(w) && rc.t+rc.l > now {
						if rc.via == "" || !strict {
							al[rc.v] = "cached-fresh"
						} else if _, ok := allowedFn(rc.via, depth+1, strict)[rc.v]; ok {
							al[rc.v] = "cached-fresh"
						}
					}
				}
				if ev, ok := cfg.embedded[w]; ok {
					al[ev] = "embedded"
				}
				return al
			}
			ops = append(ops, J{"o": "load", "u": u})
			loadTags := []string{}
			if nreq > 40 {
				why = append(why, fmt.Sprintf("load %s made %d requests: alternate links are followed without bound", u, nreq))
			}
			if err != nil {
				impl = append(impl, J{"err": "err", "req": nreq})
				if errClass(err) != "err" {
					why = append(why, "load "+u+": "+err.Error())
				}
				if ev, ok := cfg.embedded[u]; ok {
					why = append(why, fmt.Sprintf("the document embedded under %s (version %d) is not returned: %v (%d request(s) made)", u, ev, err, nreq))
				}
			} else {
				v := docVersion(doc)
				impl = append(impl, J{"ok": v, "req": nreq})
				// ---- direct predicate: the allowed set, computed from the history
				allowed := allowedFn(u, 0, true)
				if ev, ok := cfg.embedded[u]; ok {
					if nreq != 0 {
						why = append(why, fmt.Sprintf("a request was made for the embedded document %s", u))
					}
					if v != ev {
						why = append(why, fmt.Sprintf("embedded document %s not returned (got version %d)", u, v))
					}
				}
				if _, ok := allowed[v]; !ok {
					why = append(why, fmt.Sprintf("load %s returned version %d which is neither current nor a fresh storable response nor embedded (allowed %v, now=%d)", u, v, allowed, now))
					if _, lenient := allowedFn(u, 0, false)[v]; lenient {
						loadTags = append(loadTags, "shape:alternate-page-reuses-target-document")
					} else {
						loadTags = append(loadTags, "shape:not-allowed-at-all")
					}
				}
			}
			shapeTags = append(shapeTags, loadTags...)
			// bookkeeping of what the loader received in this load: every URL requested on the way obtained the document returned
			if err == nil && cfg.cacheMode != "none" && !(strings.HasPrefix(u, "ipfs://") && cfg.ipfsCli) {
				for _, w := range requested {
					if e, ok := snapshot[w]; ok && e.fail == "" {
						if st, lt := policyOracle(e.policy); st {
							received = append(received, recv{w, docVersion(doc), now, lt, e.alt})
						}
					}
				}
			}
			// routing: an ipfs URL goes to the IPFS client when one is set - and only there -, otherwise to the gateway; http(s) to HTTP
			for _, w := range requested {
				viaNode := strings.HasPrefix(w, "ipfs-node:")
				if strings.HasPrefix(u, "ipfs://") && cfg.ipfsCli && !viaNode {
					why = append(why, fmt.Sprintf("load %s: an IPFS client is configured but %s was requested over HTTP", u, w))
				}
				if (!strings.HasPrefix(u, "ipfs://") || !cfg.ipfsCli) && viaNode {
					why = append(why, fmt.Sprintf("load %s: the IPFS client was asked for %s", u, w))
				}
			}
			if strings.HasPrefix(u, "ipfs://") && cfg.ipfsCli && err == nil {
				if e, ok := snapshot[keyOf(u)]; !ok || e.fail != "" {
					why = append(why, fmt.Sprintf("load %s succeeded although the IPFS client has no such document", u))
				}
			}
			if cfg.cacheMode == "none" && err == nil && nreq == 0 {
				why = append(why, "no request although the cache is disabled")
			}
			sc := strings.HasPrefix(u, "http://") || strings.HasPrefix(u, "https://") || strings.HasPrefix(u, "ipfs://")
			if !sc && err == nil {
				why = append(why, "a URL with an unsupported scheme was loaded: "+u)
			}
			if strings.HasPrefix(u, "ipfs://") && !cfg.ipfsCli && cfg.ipfsGW == "" && err == nil {
				why = append(why, "ipfs URL loaded although neither client nor gateway is configured")
			}
		}
	}
	tags := []string{"cache:" + cfg.cacheMode, fmt.Sprintf("embedded:%v", len(cfg.embedded) > 0), fmt.Sprintf("ipfs:%v/%v", cfg.ipfsCli, cfg.ipfsGW != ""), fmt.Sprintf("alternates:%v", altMode)}
	if len(why) > 0 {
		// a known-finding shape only when every failure of the history has it
		n9 := 0
		for _, t := range shapeTags {
			if t == "shape:alternate-page-reuses-target-document" {
				n9++
			}
		}
		if n9 == len(why) {
			tags = append(tags, "shape:alternate-page-reuses-target-document")
		}
	}
	nt := false
	sawServeAfterLoad := false
	loaded := false
	for _, op := range ops {
		oj := op.(J)
		if oj["o"] == "load" {
			if sawServeAfterLoad {
				nt = true
			}
			loaded = true
		}
		if (oj["o"] == "serve" || oj["o"] == "fail") && loaded {
			sawServeAfterLoad = true
		}
	}
	if impl == nil {
		impl = []any{}
	}
	out.Emit(Case{Op: "loader.run", In: J{"cfg": cfg.J(), "ops": ops}, Impl: impl, Prop: propOf(why), Tags: tags, NT: nt})
}

// merklize.WithIPFSClient / WithIPFSGateway: a document whose context is an ipfs URL is merklized through the client when one is
// given (the gateway is then ignored), through the gateway otherwise; with WithDocumentLoader both are ignored
func emitMerklizeIPFSOptions(out *Out, r *Rng) {
	ctxDoc := `{"@context":{"name":{"@id":"urn:ex:name"},"n":{"@id":"urn:ex:n","@type":"http://www.w3.org/2001/XMLSchema#integer"}}}`
	inline := []byte(`{"@context":{"name":{"@id":"urn:ex:name"},"n":{"@id":"urn:ex:n","@type":"http://www.w3.org/2001/XMLSchema#integer"}},"@id":"urn:x","name":"a","n":5}`)
	byIPFS := []byte(`{"@context":"ipfs://QmCtx/ctx.json","@id":"urn:x","name":"a","n":5}`)
	want, err := merklize.MerklizeJSONLD(context.Background(), bytes.NewReader(inline))
	if err != nil {
		return
	}
	root := want.Root().BigInt().String()
	var why []string
	mk := func() *scriptedOrigin { return &scriptedOrigin{docs: map[string]*orgEntry{}} }
	rootOf := func(opts ...merklize.MerklizeOption) (string, error) {
		mz, err := merklize.MerklizeJSONLD(context.Background(), bytes.NewReader(byIPFS), opts...)
		if err != nil {
			return "", err
		}
		return mz.Root().BigInt().String(), nil
	}
	// (a) client only
	oa := mk()
	if rt, err := rootOf(merklize.WithIPFSClient(rawIPFS{oa, map[string]string{"QmCtx/ctx.json": ctxDoc}})); err != nil || rt != root {
		why = append(why, fmt.Sprintf("WithIPFSClient: %v %v (expected the root of the document with the context inline)", trunc(rt, 20), err))
	}
	// (b) client and gateway: the client is asked, the gateway is not
	ob := mk()
	old := http.DefaultTransport
	http.DefaultTransport = ob
	http.DefaultClient.Transport = ob
	if rt, err := rootOf(merklize.WithIPFSClient(rawIPFS{ob, map[string]string{"QmCtx/ctx.json": ctxDoc}}), merklize.WithIPFSGateway("https://gw.example")); err != nil || rt != root {
		why = append(why, fmt.Sprintf("WithIPFSClient + WithIPFSGateway: %v %v", trunc(rt, 20), err))
	}
	for _, w := range ob.log {
		if !strings.HasPrefix(w, "ipfs-node:") {
			why = append(why, "WithIPFSClient + WithIPFSGateway: the gateway was asked for "+w)
		}
	}
	// (c) neither: an error
	if rt, err := rootOf(); err == nil {
		why = append(why, "an ipfs context was resolved without client or gateway: root "+trunc(rt, 20))
	}
	http.DefaultTransport = old
	http.DefaultClient.Transport = nil
	out.Emit(Case{Op: "none", In: J{"merklize": "ipfs-options"}, Impl: J{}, Prop: propOf(why), Tags: []string{"merklize-ipfs-options"}, NT: true})
	// the built-in cache engine used directly: embedded documents are never overwritten, a stored document comes back with its expiry
	var w2 []string
	eng, err := loaders.NewMemoryCacheEngine(loaders.WithEmbeddedDocumentBytes("https://e.example/ctx", []byte(`{"v": 1}`)))
	if err != nil {
		w2 = append(w2, "NewMemoryCacheEngine: "+err.Error())
	} else {
		other := &ld.RemoteDocument{DocumentURL: "https://e.example/ctx", Document: map[string]any{"v": 2.0}}
		exp := time.Now().Add(time.Hour)
		_ = eng.Set("https://e.example/ctx", other, exp)
		if d, _, err := eng.Get("https://e.example/ctx"); err != nil || docVersion(d) != 1 {
			w2 = append(w2, fmt.Sprintf("an embedded document was overwritten through Set: version %d (%v)", docVersion(d), err))
		}
		if _, _, err := eng.Get("https://e.example/none"); !errors.Is(err, loaders.ErrCacheMiss) {
			w2 = append(w2, fmt.Sprintf("Get of an unknown URL gives %v instead of a cache miss", err))
		}
		_ = eng.Set("https://e.example/other", other, exp)
		if d, e2, err := eng.Get("https://e.example/other"); err != nil || docVersion(d) != 2 || !e2.Equal(exp) {
			w2 = append(w2, fmt.Sprintf("a stored document comes back as version %d, expiry %v (%v); stored version 2, expiry %v", docVersion(d), e2, err, exp))
		}
	}
	if _, err := loaders.NewMemoryCacheEngine(loaders.WithEmbeddedDocumentBytes("https://e.example/bad", []byte(`{"v": `))); err == nil {
		w2 = append(w2, "an embedded document that is no JSON is accepted")
	}
	out.Emit(Case{Op: "none", In: J{"engine": "direct"}, Impl: J{}, Prop: propOf(w2), Tags: []string{"engine-direct"}, NT: true})
}

// rawIPFS: an IPFS client serving fixed bodies
type rawIPFS struct {
	o    *scriptedOrigin
	docs map[string]string
}

func (f rawIPFS) Cat(path string) (io.ReadCloser, error) {
	f.o.mu.Lock()
	f.o.log = append(f.o.log, "ipfs-node:"+path)
	f.o.mu.Unlock()
	b, ok := f.docs[path]
	if !ok {
		return nil, errors.New("ipfs: not found")
	}
	return io.NopCloser(strings.NewReader(b)), nil
}

// emitAltRouting: the target of a rel="alternate" link is a URL like any other - it is routed by its scheme. A page whose
// alternate is an ipfs URL is answered by the IPFS client (or through the gateway), and any other scheme is rejected; the
// HTTP client only ever sees http(s) URLs.
func emitAltRouting(out *Out, r *Rng) {
	page := fmt.Sprintf("https://pages.example/p%d.html", r.Intn(1000))
	targets := []string{"ipfs://QmAlt/doc.json", "ftp://files.example/doc.jsonld", "file:///etc/ctx.json", "gopher://old.example/1", "ws://sock.example/x", "mailto:ctx@example.com", "urn:ctx:doc"}
	// (targets that json-gold's Resolve respells - an upper-case scheme becomes lower case - are left out: the model takes the
	// target as written)
	t := targets[r.Intn(len(targets))]
	cfg := loaderCfg{cacheMode: r.Pick([]string{"memory", "none", "virtual"})}
	switch r.Intn(3) {
	case 0:
		cfg.ipfsCli = true
	case 1:
		cfg.ipfsGW = "https://gw.example"
	}
	if r.Chance(30) {
		cfg.ipfsCli, cfg.ipfsGW = true, "https://gw.example"
	}
	o := &scriptedOrigin{docs: map[string]*orgEntry{}, budget: 40}
	pagePol := r.Pick([]string{"max-age=60", "no-store"})
	o.docs[page] = &orgEntry{alt: t, policy: pagePol}
	// whatever is asked, there is an answer: a document under the URL itself (should the HTTP client be sent there), under the
	// gateway's URL for it, and at the IPFS node
	o.docs[t] = &orgEntry{ver: 66, policy: "max-age=60"}
	o.docs["https://gw.example/ipfs/QmAlt/doc.json"] = &orgEntry{ver: 7, policy: "max-age=60"}
	o.docs["ipfs-node:QmAlt/doc.json"] = &orgEntry{ver: 8}
	var ops []any
	{
		st, lt := policyOracle(pagePol)
		ops = append(ops, J{"o": "serveAlt", "u": page, "target": t, "storable": st, "lifetime": lt, "policy": pagePol})
		st, lt = policyOracle("max-age=60")
		for _, kv := range []struct {
			u string
			v int
		}{{t, 66}, {"https://gw.example/ipfs/QmAlt/doc.json", 7}, {"ipfs-node:QmAlt/doc.json", 8}} {
			ops = append(ops, J{"o": "serve", "u": kv.u, "v": kv.v, "storable": st, "lifetime": lt, "policy": "max-age=60"})
		}
		ops = append(ops, J{"o": "load", "u": page})
	}
	loader, _ := cfg.build(o)
	var why []string
	doc, err := guard(10*time.Second, func() (*ld.RemoteDocument, error) { return loader.LoadDocument(page) })
	isIPFS := strings.HasPrefix(t, "ipfs://")
	want := 0 // error
	switch {
	case isIPFS && cfg.ipfsCli:
		want = 8
	case isIPFS && cfg.ipfsGW != "":
		want = 7
	}
	got := 0
	if err == nil {
		got = docVersion(doc)
	}
	if got != want {
		why = append(why, fmt.Sprintf("page with alternate %s (ipfs client %v, gateway %q): loaded version %d (%v), expected %d (0 = an error)", t, cfg.ipfsCli, cfg.ipfsGW, got, err, want))
	}
	o.mu.Lock()
	for _, u := range o.log {
		if !strings.HasPrefix(u, "http://") && !strings.HasPrefix(u, "https://") && !strings.HasPrefix(u, "ipfs-node:") {
			why = append(why, fmt.Sprintf("the HTTP client was sent to %s", u))
			break
		}
	}
	lg := fmt.Sprint(o.log)
	nreq := o.reqs
	o.mu.Unlock()
	if errClass(err) == "panic" || errClass(err) == "hang" {
		why = append(why, "loader "+errClass(err)+": "+err.Error())
	}
	impl := []any{J{"err": "err", "req": nreq}}
	if err == nil {
		impl = []any{J{"ok": got, "req": nreq}}
	}
	// the model routes the alternate's target through the same dispatch (Loader.Route)
	out.Emit(Case{Op: "loader.run", In: J{"cfg": cfg.J(), "ops": ops, "requests": lg}, Impl: impl, Prop: propOf(why),
		Tags: []string{"alternate-routing", "target:" + strings.SplitN(t, ":", 2)[0]}, NT: true})
}

// emitAltContextHistory: what a load returns for a URL is the whole remote document - body, document URL and the optional
// context link (RemoteDocument.ContextURL, which json-gold applies as an extra context) - of a response the origin gave FOR THAT
// URL (now, or earlier and still reusable), or the document embedded under it. Histories mix documents served with and without
// a context link of their own, pages that are no JSON documents and announce an alternate (written absolute or relative) with
// or without a context link of the page, embedded documents, new versions, failures and passing time; pages are loaded
// between loads of the documents they point to. Judged (direct predicate, no model): every successful load of a document URL,
// and the engine's embedded documents at the end of the history. Loads of pages are executed and book-kept but not judged
// here (their version is judged by emitLoaderHistory; whose context link a page's result should carry the property does not say).
func emitAltContextHistory(out *Out, r *Rng) {
	mode := r.Pick([]string{"memory", "virtual", "virtual", "virtual", "none"})
	base := r.Pick([]string{"https://schema.example/ctx/", "http://ctx.example/", "https://ctx.example/a/b/", "https://w3id.example/"})
	nd := 2 + r.Intn(3)
	docs := make([]string, nd)
	for i := range docs {
		docs[i] = fmt.Sprintf("%sdoc%d.jsonld", base, i)
	}
	np := 1 + r.Intn(3)
	pages := make([]string, np)
	sameBase := make([]bool, np)
	for i := range pages {
		if r.Chance(60) {
			pages[i], sameBase[i] = fmt.Sprintf("%spage%d", base, i), true
		} else {
			pages[i] = fmt.Sprintf("https://pages.example/p%d.html", i)
		}
	}
	ctxPool := []string{base + "page-context.jsonld", "https://w3id.example/ctx/v1", "http://ctx.example/shared.jsonld", "https://ns.example/c?x=1", base + "c2"}
	docTypes := []string{"application/ld+json", "application/ld+json", "application/ld+json", "application/json", "application/activity+json", "text/plain"}
	pageTypes := []string{"text/html", "text/html; charset=utf-8", "application/xhtml+xml", "text/plain", "application/octet-stream"}

	embedded := map[string]int{}
	var memOpts []loaders.MemoryCacheEngineOption
	if mode != "none" && r.Chance(45) {
		for k := 0; k < 1+r.Intn(2); k++ {
			u := docs[r.Intn(nd)]
			if _, ok := embedded[u]; !ok {
				embedded[u] = 1000 + r.Intn(9)
				memOpts = append(memOpts, loaders.WithEmbeddedDocumentBytes(u, []byte(fmt.Sprintf(`{"v": %d}`, embedded[u]))))
			}
		}
	}
	o := &scriptedOrigin{docs: map[string]*orgEntry{}, budget: 300}
	lopts := []loaders.DocumentLoaderOption{loaders.WithHTTPClient(&http.Client{Transport: o})}
	inner, err := loaders.NewMemoryCacheEngine(memOpts...)
	if err != nil {
		out.Emit(Case{Op: "none", In: J{"alt-context": "engine"}, Impl: J{}, Prop: propOf([]string{"NewMemoryCacheEngine: " + err.Error()}), Tags: []string{"alt-context"}, NT: true})
		return
	}
	var ve *virtualEngine
	switch mode {
	case "none":
		lopts = append(lopts, loaders.WithCacheEngine(nil))
	case "virtual":
		ve = &virtualEngine{inner: inner}
		lopts = append(lopts, loaders.WithCacheEngine(ve))
	default:
		lopts = append(lopts, loaders.WithCacheEngine(inner))
	}
	loader := loaders.NewDocumentLoader(nil, "", lopts...)

	copyDoc := func(d *ld.RemoteDocument) ld.RemoteDocument {
		c := ld.RemoteDocument{DocumentURL: d.DocumentURL, ContextURL: d.ContextURL}
		if b, err := json.Marshal(d.Document); err == nil {
			_ = json.Unmarshal(b, &c.Document)
		}
		return c
	}
	showDoc := func(d ld.RemoteDocument) string {
		b, _ := json.Marshal(d.Document)
		return fmt.Sprintf("{DocumentURL %q, ContextURL %q, Document %s}", d.DocumentURL, d.ContextURL, trunc(string(b), 60))
	}
	// the embedded documents as they are at construction, before anything was loaded
	embSnap := map[string]ld.RemoteDocument{}
	var why []string
	for u := range embedded {
		d, _, err := inner.Get(u)
		if err != nil || d == nil {
			why = append(why, fmt.Sprintf("the engine does not have the document embedded under %s: %v", u, err))
			continue
		}
		embSnap[u] = copyDoc(d)
	}

	var ops []any
	var impl []any
	now := 0
	type recv struct {
		u    string
		v    int
		ctx  string // the context link of that response ("" = none)
		t, l int
	}
	var received []recv
	isPage := func(u string) bool {
		for _, p := range pages {
			if p == u {
				return true
			}
		}
		return false
	}
	serveDoc := func(u string) {
		e := &orgEntry{ver: 1, ctype: docTypes[r.Intn(len(docTypes))]}
		o.mu.Lock()
		if old := o.docs[u]; old != nil {
			e.ver = old.ver + 1
		}
		o.mu.Unlock()
		e.policy = c19Policies[r.Intn(len(c19Policies))]
		if r.Chance(55) {
			e.policy = r.Pick([]string{"max-age=3600", "max-age=60", "max-age=3", "expires+3600"})
		}
		if r.Chance(30) {
			e.ctx = ctxPool[r.Intn(len(ctxPool))]
		}
		st, lt := policyOracle(e.policy)
		o.mu.Lock()
		o.docs[u] = e
		o.mu.Unlock()
		ops = append(ops, J{"o": "serve", "u": u, "v": e.ver, "policy": e.policy, "storable": st, "lifetime": lt, "contentType": e.ctype, "contextLink": e.ctx})
	}
	servePage := func(i int) {
		e := &orgEntry{ctype: pageTypes[r.Intn(len(pageTypes))]}
		e.alt = docs[r.Intn(nd)]
		if r.Chance(12) {
			e.alt = pages[r.Intn(np)] // a page naming a page (or itself)
		}
		if sameBase[i] && r.Chance(60) {
			e.altRef = e.alt[len(base):]
			if r.Chance(30) {
				e.altRef = "./" + e.altRef
			}
		}
		e.policy = r.Pick([]string{"no-store", "none", "max-age=3600", "max-age=3", "private", "max-age=60"})
		if r.Chance(65) {
			e.ctx = ctxPool[r.Intn(len(ctxPool))]
			e.ctxFirst = r.Bool()
		}
		st, lt := policyOracle(e.policy)
		o.mu.Lock()
		o.docs[pages[i]] = e
		o.mu.Unlock()
		ops = append(ops, J{"o": "servePage", "u": pages[i], "target": e.alt, "policy": e.policy, "storable": st, "lifetime": lt, "contentType": e.ctype, "link": e.linkHeader()})
	}
	wantBody := func(v int) any { return map[string]any{"@context": map[string]any{"x": "urn:x"}, "v": float64(v)} }
	nJudged, nAfterPage := 0, 0
	pageLoaded := false
	load := func(u string) {
		o.mu.Lock()
		before := o.reqs
		logFrom := len(o.log)
		o.spent = 0
		o.mu.Unlock()
		doc, err := guard(5*time.Second, func() (*ld.RemoteDocument, error) {
			d, e := loader.LoadDocument(u)
			if e == nil && d == nil {
				return nil, errNilNil
			}
			return d, e
		})
		o.mu.Lock()
		nreq := o.reqs - before
		requested := append([]string{}, o.log[logFrom:]...)
		snapshot := map[string]orgEntry{}
		for k, e := range o.docs {
			snapshot[k] = *e
		}
		o.mu.Unlock()
		if c := errClass(err); c == "panic" || c == "hang" {
			why = append(why, "load "+u+": "+err.Error())
		}
		if errors.Is(err, errNilNil) {
			why = append(why, "load "+u+": nil document without an error")
		}
		if err != nil {
			ops = append(ops, J{"o": "load", "u": u})
			impl = append(impl, J{"err": "err", "req": nreq})
			if ev, ok := embedded[u]; ok {
				why = append(why, fmt.Sprintf("the document embedded under %s (version %d) is not returned: %v (%d request(s) made)", u, ev, err, nreq))
			}
		} else {
			got := copyDoc(doc)
			ops = append(ops, J{"o": "load", "u": u})
			impl = append(impl, J{"ok": docVersion(doc), "req": nreq, "documentURL": got.DocumentURL, "contextURL": got.ContextURL})
			switch {
			case isPage(u):
				pageLoaded = true
			case len(embSnap) > 0 && func() bool { _, ok := embSnap[u]; return ok }():
				// embedded at construction: returned as it was embedded, without any request
				nJudged++
				if pageLoaded {
					nAfterPage++
				}
				if nreq != 0 {
					why = append(why, fmt.Sprintf("%d request(s) were made for the embedded document %s", nreq, u))
				}
				if snap := embSnap[u]; !reflect.DeepEqual(snap, got) {
					why = append(why, fmt.Sprintf("load %s: the embedded document was overwritten: embedded %s, returned %s", u, showDoc(snap), showDoc(got)))
				}
			default:
				// a response the origin gave for u: the current one, or an earlier one that allowed caching and is still fresh
				nJudged++
				if pageLoaded {
					nAfterPage++
				}
				type cand struct {
					v        int
					ctx, why string
				}
				var allowed []cand
				if e, ok := snapshot[u]; ok && e.fail == "" && e.alt == "" {
					allowed = append(allowed, cand{e.ver, e.ctx, "current"})
				}
				for _, rc := range received {
					if rc.u == u && rc.t+rc.l > now {
						allowed = append(allowed, cand{rc.v, rc.ctx, "cached-fresh"})
					}
				}
				v := docVersion(doc)
				okv, okc := false, false
				for _, a := range allowed {
					if a.v == v {
						okv = true
						// the context link is an optional member: the loader may ignore it (it does for application/ld+json), it may not invent one
						if got.ContextURL == "" || got.ContextURL == a.ctx {
							okc = true
						}
					}
				}
				switch {
				case !okv:
					why = append(why, fmt.Sprintf("load %s returned version %d which is neither current nor a fresh storable response (allowed %v, now=%d)", u, v, allowed, now))
				case !okc:
					why = append(why, fmt.Sprintf("load %s returned version %d with context link %q: no response of the origin for this URL carried it (allowed {version, contextLink, why}: %v, now=%d)", u, v, got.ContextURL, allowed, now))
				}
				if okv && !reflect.DeepEqual(got.Document, wantBody(v)) {
					why = append(why, fmt.Sprintf("load %s returned a document the origin never served: %s", u, showDoc(got)))
				}
				if got.DocumentURL != u {
					why = append(why, fmt.Sprintf("load %s returned a document of another URL: %s", u, showDoc(got)))
				}
			}
		}
		// bookkeeping: every document URL requested on the way (directly, or as the target of a page) received its current response
		if mode != "none" {
			for _, w := range requested {
				if e, ok := snapshot[w]; ok && e.fail == "" && e.alt == "" {
					if st, lt := policyOracle(e.policy); st {
						received = append(received, recv{w, e.ver, e.ctx, now, lt})
					}
				}
			}
		}
		if nreq > 40 {
			why = append(why, fmt.Sprintf("load %s made %d requests: alternate links are followed without bound", u, nreq))
		}
	}

	for _, u := range docs {
		if r.Chance(90) {
			serveDoc(u)
		}
	}
	for i := range pages {
		servePage(i)
	}
	nops := 6 + r.Intn(10)
	for k := 0; k < nops; k++ {
		x := r.Intn(100)
		switch {
		case x < 13:
			serveDoc(docs[r.Intn(nd)])
		case x < 20:
			servePage(r.Intn(np))
		case x < 25:
			u := docs[r.Intn(nd)]
			o.mu.Lock()
			ne := &orgEntry{fail: []string{"404", "500", "transport", "garbage", "empty-body"}[r.Intn(5)]}
			if old := o.docs[u]; old != nil {
				ne.ver = old.ver
			}
			o.docs[u] = ne
			o.mu.Unlock()
			ops = append(ops, J{"o": "fail", "u": u, "how": ne.fail})
		case x < 36 && ve != nil:
			n := []int{1, 2, 5, 7, 30, 100}[r.Intn(6)]
			ve.tick(n)
			now += n
			ops = append(ops, J{"o": "tick", "n": n})
		case x < 66:
			load(pages[r.Intn(np)])
		default:
			load(docs[r.Intn(nd)])
		}
	}
	if r.Chance(75) {
		for _, i := range r.Perm(nd) {
			load(docs[i])
		}
	}
	// the engine itself: its embedded documents are what they were at construction
	for u, snap := range embSnap {
		d, _, err := inner.Get(u)
		if err != nil || d == nil {
			why = append(why, fmt.Sprintf("at the end of the history the engine no longer has the document embedded under %s: %v", u, err))
		} else if cur := copyDoc(d); !reflect.DeepEqual(snap, cur) {
			why = append(why, fmt.Sprintf("at the end of the history the engine's embedded document %s is %s, embedded was %s", u, showDoc(cur), showDoc(snap)))
		}
	}
	emb := J{}
	for u, v := range embedded {
		emb[u] = v
	}
	if impl == nil {
		impl = []any{}
	}
	out.Emit(Case{Op: "none", In: J{"alt-context": J{"cache": mode, "embedded": emb}, "ops": ops}, Impl: J{"loads": impl}, Prop: propOf(why),
		Tags: []string{"alt-context", "alt-context:cache:" + mode, fmt.Sprintf("alt-context:embedded:%v", len(embedded) > 0), fmt.Sprintf("alt-context:doc-load-after-page-load:%v", nAfterPage > 0)},
		NT:   nAfterPage > 0})
}

func genC19(out *Out, r *Rng, tier string, n int, shard int) {
	if shard == 0 {
		emitMerklizeIPFSOptions(out, r)
	}
	for i := 0; i < n; i++ {
		emitLoaderHistory(out, r)
		if i%4 == 0 {
			emitAltRouting(out, r)
		}
	}
	// after the histories above, so that their stream of random choices stays what it was
	for i := 0; i < n/3+1; i++ {
		emitAltContextHistory(out, r)
	}
	if tier == "thorough" && shard < 4 {
		emitRealTimeHistory(out, r)
	}
}

// the default in-memory engine with real time: one entry with a 2 s lifetime, reused before and refetched after it expired
func emitRealTimeHistory(out *Out, r *Rng) {
	o := &scriptedOrigin{docs: map[string]*orgEntry{}}
	cfg := loaderCfg{cacheMode: "memory"}
	loader, _ := cfg.build(o)
	u := "https://ctx.example/rt.jsonld"
	var why []string
	o.docs[u] = &orgEntry{ver: 1, policy: "max-age=2"}
	t0 := time.Now()
	d1, _ := loader.LoadDocument(u)
	o.mu.Lock()
	o.docs[u] = &orgEntry{ver: 2, policy: "max-age=2"}
	o.mu.Unlock()
	d2, _ := loader.LoadDocument(u)
	if time.Since(t0) > 1200*time.Millisecond {
		return // the machine stalled between the two loads: the wall-clock premise of this history does not hold, nothing to judge
	}
	time.Sleep(2600 * time.Millisecond)
	d3, _ := loader.LoadDocument(u)
	if docVersion(d1) != 1 || docVersion(d2) != 1 || docVersion(d3) != 2 {
		why = append(why, fmt.Sprintf("real-time history: versions %d,%d,%d (expected 1,1,2)", docVersion(d1), docVersion(d2), docVersion(d3)))
	}
	ops := []any{J{"o": "serve", "u": u, "v": 1, "storable": true, "lifetime": 2}, J{"o": "load", "u": u}, J{"o": "serve", "u": u, "v": 2, "storable": true, "lifetime": 2},
		J{"o": "load", "u": u}, J{"o": "tick", "n": 3}, J{"o": "load", "u": u}}
	impl := []any{J{"ok": docVersion(d1), "req": 1}, J{"ok": docVersion(d2), "req": 0}, J{"ok": docVersion(d3), "req": 1}}
	out.Emit(Case{Op: "loader.run", In: J{"cfg": cfg.J(), "ops": ops}, Impl: impl, Prop: propOf(why), Tags: []string{"real-time"}, NT: true})
}

func init() { gens["C19"] = genC19 }

// ctxOrigin serves extra static documents (schema contexts) next to the scripted ones
type ctxOrigin struct {
	scripted *scriptedOrigin
	extra    map[string][]byte
	policy   string
}

func (c *ctxOrigin) RoundTrip(req *http.Request) (*http.Response, error) {
	if b, ok := c.extra[req.URL.String()]; ok {
		return &http.Response{StatusCode: 200, Body: io.NopCloser(bytes.NewReader(b)), Header: policyHeaders(c.policy, time.Now()), Request: req}, nil
	}
	return c.scripted.RoundTrip(req)
}

func loaderWithCtx(c loaderCfg, rt http.RoundTripper) (ld.DocumentLoader, *virtualEngine) {
	opts := []loaders.DocumentLoaderOption{loaders.WithHTTPClient(&http.Client{Transport: rt})}
	var ve *virtualEngine
	var memOpts []loaders.MemoryCacheEngineOption
	for u, v := range c.embedded {
		memOpts = append(memOpts, loaders.WithEmbeddedDocumentBytes(u, []byte(fmt.Sprintf(`{"v": %d}`, v))))
	}
	inner, _ := loaders.NewMemoryCacheEngine(memOpts...)
	if c.cacheMode == "virtual" {
		ve = &virtualEngine{inner: inner}
		opts = append(opts, loaders.WithCacheEngine(ve))
	} else {
		opts = append(opts, loaders.WithCacheEngine(inner))
	}
	return loaders.NewDocumentLoader(nil, "", opts...), ve
}
