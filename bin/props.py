# per-property configuration of bin/check
COMMON_TRUSTED = [
    "Lean 4.33.0 kernel; axioms per theorem limited to propext, Classical.choice, Quot.sound (audited with #print axioms on every run)",
    "hand-written Lean models under lean/Gsp/Model; fidelity to the Go code is checked by the correspondence run, not proved",
    "the Go harness under harness/ (generators, canonicaliser, oracle columns) and bin/check",
    "Go toolchain, encoding/json, math/big, time, strconv",
]

def P(rule, shards=(8, 16), n=(100, 1000), trusted=(), assumptions=(), explanation="", race=False):
    return dict(rule=rule, shards=dict(quick=shards[0], thorough=shards[1]), n=dict(quick=n[0], thorough=n[1]),
                trusted=list(trusted), assumptions=list(assumptions), explanation=explanation, race=race)

PROPS = {
    "PRE": P("preflight vectors", shards=(1, 1), n=(200, 200)),
    "C04": P("cases = (hasher/prime, datatype, lexical or Go-typed spelling); every generated case is non-trivial by construction "
             "(boundary integer, whole-field enumeration for p in {3,5,7,251}, non-canonical spelling, malformed form, time with offset/fraction); "
             "distinct = distinct (op,input) hashes",
             shards=(4, 16), n=(300, 3000),
             trusted=["ld.GetCanonicalDouble / strconv.ParseFloat (oracle column `canon`)",
                      "big.Rat.SetString beyond the modelled decimal grammar (base prefixes, '_', binary exponents, a/b) and the lenient fallback of time.Parse are outside the model and not generated"],
             assumptions=["prime p odd and >= 3 for the range theorems", "time_inj needs p > 4*10^20 (true of BN254)"]),
    "C01": P("cases = (a) generated abstract documents rendered to JSON-LD (random context: type- and property-scoped contexts, prefixes, typed/untyped literals, "
             "arrays of literals/IRIs/blank and IRI-identified objects, named-graph containers) merklized for real under 5 hashers, and (b) generated RDF datasets "
             "(forests and arbitrary quad sets incl. multi-parent, cycles, dangling blanks, graph mismatches) given to EntriesFromRDFWithHasher; "
             "non-trivial = a document with a multi-valued property or nesting depth >= 2, or any dataset case; distinct = distinct (op,input) hashes",
             shards=(8, 16), n=(40, 600),
             trusted=["json-gold expansion / URDNA2015 normalisation (document -> dataset): correspondence only; the harness checks the entries against the abstract document's facts",
                      "go-merkletree-sql (modelled in Gsp.Smt, differentially tested)"]),
    "C02": P("cases = merklized generated documents with all member paths and systematically derived non-member paths (every proper prefix, one-part extensions, sibling indices n and n+1, "
             "dropped / inserted indices, a part replaced by a fresh IRI, unrelated paths), plus pure sparse-Merkle-tree op streams (random, small, long-shared-prefix and near-duplicate keys, "
             "duplicates, beyond-40-level collisions) against go-merkletree-sql; every case is non-trivial (>= 1 member and >= 1 non-member query, or an op stream); distinct = distinct (op,input) hashes",
             shards=(8, 16), n=(30, 500),
             trusted=["go-merkletree-sql v2 (modelled in Gsp.Smt; compared op by op: roots, all siblings, aux node, existence, verification)",
                      "json-gold (document -> dataset), not modelled",
                      "'the path denotes an entry' is decided through the key hash; two different paths sharing a hash is excluded by the idealised-hash reading (stated where used)"]),
    "C03": P("cases = abstract documents; each is rendered k times with independent presentation choices (object keys shuffled, arrays permuted, whitespace, JSON number spellings, lexical respellings on "
             "single-valued properties, blank-node labels added/renamed, context inline / by URL / in an array, id/type aliases vs keywords) and each rendering merklized r times alternating the default tree "
             "and a caller-provided empty tree; all roots must equal the base root, which must equal the model's root; then up to m single-field value changes must each change the root. "
             "non-trivial = every document (>= 1 re-presentation and >= 1 mutation); distinct = distinct (op,input) hashes",
             shards=(8, 16), n=(12, 150),
             trusted=["json-gold expansion and URDNA2015 (canonical labelling and quad order): not modelled; tied by the metamorphic run and the model root",
                      "HashCR (idealised hash) for the sensitivity theorems"]),
    "C10": P("cases = every literal entry of generated merklized documents (5 hashers; all supported datatypes; JSON numbers, numeric strings, booleans, strings; single values, arrays, nested and mixed arrays): "
             "(JSONLDType(path), RawValue(path)) fed to HashValueWithHasher and to the model; non-trivial = every literal; distinct = distinct (hasher, datatype, Go-typed value) hashes",
             shards=(8, 16), n=(40, 600),
             trusted=["json-gold compaction (RawValue reads the compacted document)", "ld.GetCanonicalDouble (oracle column)"]),
    "C16": P("cases = generated documents processed under each of 5 hashers (salted byte hashing, shifted element hashing, small primes 65537 and 2^61-1, Poseidon) while the global default hasher is a poison hasher "
             "returning distinctive constants: (a) full document case vs the model incl. member/non-member proofs, (b) derived objects: stored key/value hashes recomputed with the statement's own hashing, "
             "Options().NewPath / NewRDFEntry / MkValue, proofs verified with the keys and values handed out, merklizer restored from bytes with the same hasher; every case non-trivial; distinct = distinct (op,input) hashes",
             shards=(8, 16), n=(15, 300),
             trusted=["the alternative hashers are defined twice (harness/common.go and lean/Gsp/Model/Hasher.lean) and cross-checked by the preflight"]),
    "C13": P("cases = generated merklized documents (all value kinds: big integers incl. negatives and range boundaries, bool, strings incl. unicode/long, times with offsets and nanoseconds) under Poseidon, a salted and a "
             "small-prime hasher; MarshalBinary (twice, sampling map order) -> MerklizerFromBytes with no tree / a matching pre-filled tree / a non-matching tree; restored root, entry set, source, safe mode and, "
             "for member and non-member paths, raw value, datatype, value kind, proof existence and verification compared with the original; every entry round-tripped on its own; non-trivial = every case; distinct = distinct (op,input,config) hashes",
             shards=(8, 16), n=(12, 200),
             trusted=["encoding/gob byte layer (token-level model only)", "json-gold compaction for RawValue"]),
    "C15": P("cases = generated documents with 1-3 undefined properties (plain values, objects, arrays) injected at top level, in nested nodes and in array members; merklized in default mode, explicit safe mode and "
             "explicit unsafe mode; unsafe root compared with the real and the model root of the document without them; non-trivial = at least one undefined property; distinct = distinct (op,input) hashes",
             shards=(8, 16), n=(12, 200),
             trusted=["json-gold decides what 'does not expand to an absolute IRI' means and performs the dropping; the repository contributes the default and the option plumbing"]),
    "C05": P("cases = generated credentials (merklized schemas and schemas with a serialization attribute assigning 1-4 slots, nested fields; with/without subject id, expiration incl. pre-1970, credential id; subject type as "
             "string / two-element array / absent with top-level fallback; malformed subject DIDs) x option sets (positions incl. unknown strings, updatable, version and nonce at 0 / 1 / max / random, nil options) on fresh objects, "
             "plus histories of 2-6 calls over two credentials of different schema kinds sharing two options objects; every case non-trivial; distinct = distinct (op,input) hashes",
             shards=(8, 16), n=(25, 400),
             trusted=["Keccak-256 (x/crypto, oracle column schemaOf)", "core.IDFromDID / w3c.ParseDID (oracle column subject)", "go-iden3-core Claim (re-modelled in Gsp.Claim, compared slot by slot)",
                      "document -> root: the credential is merklized by the harness directly (json-gold + merklizer, see C01-C03)"]),
    "C17": P("cases = complete enumeration of the assignments of the four slots to {unassigned, 5 field paths incl. a nested one} (6^4 - 1 = 1295 attributes; quick tier: every third, thorough: all), parts in random order, "
             "plus malformed attributes (wrong prefix, 5 parts, a=b=c, unknown slot key, missing '=', empty value, duplicate key, unknown field); for every attribute a credential of that type is built for real and "
             "every pool field, an unknown field, the empty field and a dotted non-field are looked up by type name and by type IRI; the facade with all 8 subsets of stub components; every case non-trivial; "
             "distinct = distinct (attribute, field) pairs",
             shards=(8, 16), n=(1, 1),
             trusted=["json-gold context parsing (ld.Context term definitions) locates the serialization attribute; the harness feeds the attribute string itself to the model"]),
    "C06": P("cases = a synthetic issuer and a properly issued, BJJ-signed credential per round; then every single-site modification: of the credential (a bound field value, a field removed, issuance date, expiration by a second / "
             "a nanosecond / removed, subject id changed / removed / added, issuer, status nonce; plus unbound sites: a field not designated by the serialization attribute, the credential's own id) and of the proof's claim "
             "(nonce, version, updatable, expiration, id position, root position, a data slot +1, schema hash) - with the original signature and re-signed by the issuer; all run through the real VerifyProof; non-trivial = every case; "
             "distinct = distinct (credential, claim, mutation) hashes",
             shards=(8, 16), n=(6, 100),
             trusted=["BabyJubJub/Poseidon signature (go-iden3-crypto): the synthetic issuer signs for real", "Keccak, DID->ID (oracle columns)", "json-gold (document -> root, by the harness directly)"]),
    "C07": P("cases = synthetic issuers (random BJJ keys, claims/revocation/roots trees, genesis and later states, DIDs derived from the genesis state) x properly issued and signed credentials x 36 bundles: "
             "2 benign (untouched; 'published' missing with a genesis state) and 34 single faults (signature bit / other key / other claim; auth claim of another issuer; attacker key with the victim's state; inclusion proof for another "
             "claim / non-existence / existence cleared / sibling changed / missing; each root and the state replaced inconsistently and consistently; garbage roots+state 'published'; state or claims root missing / bad hex; another DID; "
             "malformed DID; resolver unpublished / missing / error / no state info for later states; status nonce mismatch / missing / without type / unregistered type / resolver error / auth claim revoked / existence flipped / "
             "inconsistent or missing tree state); status-registry scenes (own registry lacking a type the default one has), documents the issuer never signed under lists of same-type proofs, whole DID documents with the state entry among other verification methods; non-trivial = every case; distinct = distinct (op,input) hashes",
             shards=(8, 16), n=(3, 60),
             trusted=["BabyJubJub signature verification, core.CheckGenesisStateID, w3c.ParseDID, core.IDFromDID: oracle bits computed by the harness with the third-party libraries directly",
                      "HashCR (idealised hash) for 'accepted => the auth claim is in the tree / not revoked'"]),
    "C08": P("cases = synthetic issuers with claims trees of 0-60 (thorough: 0-2000) other claims, a third of them sharing low bits with the credential's index hash (deep siblings, aux nodes), the credential's claim inserted and "
             "proven from the tree, x 24 bundles: 2 benign (untouched; zero roots omitted) and 22 single faults (existence cleared; honest non-existence proof of a never-issued claim; sibling changed / dropped; aux node added; "
             "proof of another claim; claim replaced; proof missing; claims root replaced / missing; state unrelated to the roots but 'published'; attacker's own tree with the victim's state; revocation / roots root replaced; "
             "non-zero root dropped; state missing; other DID; malformed DID; resolver unpublished / missing / error / no state info); whole DID documents (state entry among 0-4 other verification methods, struct or JSON; the model picks the entry), credentials changed after issuance under the genuine inclusion proof; non-trivial = every case; distinct = distinct (op,input) hashes",
             shards=(8, 16), n=(4, 60),
             trusted=["core.CheckGenesisStateID / DID helpers (oracle bits)", "HashCR for 'accepted => the claim is a leaf of the tree with that root'"]),
    "C09": P("cases = revocation trees (empty, 3 random 64-bit nonces, 40 small nonces, 12 nonces sharing low bits with the queried one) x queries (members, neighbours differing in one low / one middle bit, the base nonce, random, 0) x "
             "14 kinds of resolver answer (honest + 13 single faults: state / each root replaced or dropped, a consistent answer for another tree, existence flipped, sibling changed, aux changed / equal to the nonce, proof for another nonce), "
             "unregistered status type; the built-in HTTP resolver through a scripted transport: status codes 199-600, body lengths 16382..16385 and beyond, valid / truncated / garbled JSON, transport error; registry histories over the verifier's own and the process-wide registry with look-alike type names (op registry.run); statuses travelling as JSON through the built-in HTTP resolver with roots or state present but unusable; non-trivial = every case; "
             "distinct = distinct (op,input) hashes",
             shards=(8, 16), n=(25, 400),
             trusted=["go-merkletree-sql proof (de)serialisation", "HashCR for 'any accepted answer tells the truth'"]),
    "C19": P("cases = histories of 4-18 operations {origin serves a new version of a URL with a cache policy (max-age=3600/3/0, no-store, private, none, Expires+3600/-10 with Date, max-age+no-store), origin fails (404/500/transport error), "
             "load, 5 virtual seconds pass} over 3 http(s) URLs, 3 ipfs URLs and unsupported schemes, for loader configurations {default memory cache, WithCacheEngine(nil), custom engine (virtual clock), embedded documents, "
             "IPFS client and/or gateway with trailing slashes}; each load's document version and request count are compared with the model, and the version with the allowed set computed from the history by the harness; "
             "non-trivial = a load after the origin changed or failed; distinct = distinct (op,input) hashes",
             shards=(8, 16), n=(120, 2500),
             trusted=["pquerna/cachecontrol decides storability and lifetime (oracle column: called directly on the same headers)",
                      "time: the custom engine shifts expiry times (virtual clock); the default engine is exercised with lifetimes that do not depend on timing, plus real-time histories (2 s lifetime, 2.6 s sleep) in the thorough tier",
                      "Cache-Control: no-cache with a lifetime is not in the alphabet (the loader reuses such responses without revalidation; the statement does not cover it)"]),
    "C20": P("cases = randomized mixes on 2-64 goroutines (6-25 operations each): MerklizeJSONLD of one document whose context is fetched through the shared loader, proofs from one shared merklizer (verified), HashValue, loads of "
             "warm / expiring (max-age=3 with a virtual clock advancing every 2 ms) / no-store / embedded / missing URLs through one shared loader and cache; harness built with -race; every result compared with the sequential oracle and "
             "the model's expected value; non-trivial = every mix; distinct = distinct (op,input) hashes",
             shards=(8, 16), n=(2, 40), race=True,
             trusted=["absence of data races is OBSERVED by the Go race detector on the explored schedules, not proved: the Go memory model is outside any Lean model of this code",
                      "the interleaving theorem covers the loader/cache logic at the granularity get / fetch / set"]),
    "C12": P("cases = (a) generated documents incl. empty strings, and 25 hand-written shapes (empty string as value / typed value / id / type / key / reference, 2- and 3-cycles through IRI and blank references, self reference, shared "
             "IRI and blank nodes, deep nesting, top-level array/null/number, graph in graph, lists, language tags, huge numbers), path parts \"\" and 15-part paths; (b) binary forms: every entry count in {-1, -2^31, -2^62, 0, n-1, n+1, 2^20, "
             "2^31, 2^40, 2^62} x version in {1,0,2,-1}, malformed compacted JSON, negative root, missing safe-mode token, wrong key/entry kinds, truncation at 40 offsets, entry tags/kinds/truncations, byte-mutation fuzz; "
             "(c) JSON decoders: DID document with every member removed / replaced by 13 values of other JSON types, 22 raw texts through the credential, Authentication and GistInfoProof decoders; (d) verification of a credential "
             "carrying a BJJ and an SMT proof with every member of the JSON form removed (singly, in pairs) or replaced, under 4 resolver modes x 4 proof types; every member of the status answer removed; (e) HashValue over "
             "10 datatypes x 44 Go values + random numeric texts; (f) datasets with cycles / shared nodes vs the model. Oracle: returns within 6 s under recover, a memory watchdog and a fatal-crash note; not (nil,nil). "
             "non-trivial = every case; distinct = distinct (kind,input) hashes",
             shards=(8, 16), n=(6, 60),
             trusted=["byte-level totality of encoding/gob, encoding/json and json-gold is OBSERVED (structured enumeration + mutation fuzzing), not proved: it is outside any model",
                      "go-merkletree-sql's JSON decoder for proofs (see known finding F6)"]),
    "C14": P("cases = generated credentials of the supported shape (optional id / expiration / refresh service / display method, dates written with offsets and milliseconds, merklized and serialized schemas, any subject object) with 0-4 "
             "attached proofs (BJJ, both sparse-Merkle-tree kinds, unknown types with nested content; single proof as object or array): struct-view root vs root of the original JSON without proof vs root without any proof; "
             "encode/decode round trip compared field by field, by concrete proof kinds and by VerifyProof outcome for both proof types; DID documents with 0-3 authentication entries as references or embedded methods, "
             "state info and a global-state proof: decode -> encode -> decode stable and equal to the input as generic JSON; claim spellings (op hex.claim: valid, recased, mis-sized, non-digit, out-of-field; alone and inside a credential's proof list), authentication entries of every JSON kind (op did.auth); non-trivial = every case; distinct = distinct (op,input) hashes",
             shards=(8, 16), n=(8, 150),
             trusted=["encoding/json struct (de)serialisation and time.Time's JSON form (modelled at member level: Gsp.Json.view/unview; parse/render of times are parameters with the round-trip assumption parse(render t) = t)",
                      "json-gold for the roots (see C01-C03)"]),
    "C18": P("cases = generated schemas (draft-07, 2020-12 and no $schema; depth <= 3; type incl. type arrays, properties / required / additionalProperties (false or schema) / min-maxProperties, items / prefixItems / additionalItems / min-maxItems, "
             "enum, const, minimum / maximum / exclusive bounds with integers, decimals and exponents, min-maxLength, 13 patterns of the portable regex subset, allOf / anyOf / oneOf / not, boolean schemas, $ref to local definitions with and "
             "without sibling keywords, a top-level $metadata block) x 8 instances (one conforming by construction where possible, 7 random objects); the verdict valid / invalid / error of Validator.ValidateData and of the Processor "
             "facade vs the Lean validator; verdicts with and without $metadata; 26 hand-written error cases (invalid schemas, non-object data, malformed JSON, unknown draft); numbers in every RFC 8259 spelling incl. multipleOf, member names that spell JSON pointers of other members; non-trivial = every case; distinct = distinct (schema, data) hashes",
             shards=(8, 16), n=(40, 1500),
             trusted=["santhosh-tekuri/jsonschema v5 is the implementation under comparison (third party); schema well-formedness (meta-schema validation) is its own and only exercised by the hand-written error cases",
                      "regular expressions: only the portable subset (literals, ., classes, \\d \\w \\s, * + ?, ^ $) is modelled and generated"]),
    "C11": P("cases = generated schemas (type-scoped contexts for every node type, property-scoped contexts for a third of the nested properties, prefixes, id/type aliases, typed and untyped literals, references, nested objects 1-3 deep, "
             "arrays) with a conforming document; for every leaf of the document its dotted path (numeric segments for arrays), plus unknown terms, paths continuing below a leaf and the empty path: Merklizer.ResolveDocPath, "
             "Options.FieldPathFromContext(type, path), TypeFromContext, Entry under the resolved path - vs the model's three resolvers and the expansion specification; TypeIDFromContext vs the stored rdf:type; hand-written "
             "shapes for the known divergences (type-scoped term redefined in a nested node, out-of-range index, heterogeneous array, paths ending in aliases of @type / @id, a scoped context that fails to load); "
             "path values assembled in pieces with Append / Prepend and observed in between (op path.history, six hashers), positions other than 0 where the document has no array; non-trivial = paths with more than one segment; distinct = distinct (schema, document, path) hashes",
             shards=(8, 16), n=(25, 500),
             trusted=["json-gold context processing (ld.Context.Parse, term definitions) is what the Go resolvers run on; the model works on abstract contexts (flat term tables) produced by the same generator that renders the JSON-LD context",
                      "the expansion specification in Gsp.Ctx.storedKey is validated against json-gold through the stored keys (Entry exists under the resolved path)"]),
}

NOT_APPLICABLE = {}

MANIFEST_TEXT = {
    "C11": dict(
        text="Lean (Gsp.Props.C11 over Gsp.Ctx: abstract contexts, models of pathFromContext / pathFromDocument / FieldPathFromContext / TypeFromContext / TypeIDFromContext and the expansion specification storedKey): unknown terms and scoped "
             "contexts that fail to load are errors, never another path or an empty type (unknown_term_is_error_ctx, unknown_term_is_error_type, context_load_failure_is_error); a numeric segment is an index and selects that member, out of range "
             "is an error (numeric_segment_ctx, numeric_selects_member); the type identifier is the type term's @id (type_id_agrees); for a field of a typed node the document-side resolver, the context-side resolver and the specification agree "
             "(top_level_field_agrees); d8_counterexample proves on the model that the full statement is false of the current code (known finding D8). Tie: the three real resolvers vs the models on generated schema/document pairs; "
             "direct predicates: Entry exists under the resolved path with the leaf's value, context-side == document-side path, declared datatype == entry datatype, TypeID == stored rdf:type.",
        note="PARTIAL: doc_eq_stored for arbitrary nesting is not a theorem (false because of D8; proved counter-example). Fixed in /repo: D9 (e305e65), D14 (21a9b11). Known findings: D8 (type-scoped context propagated into nested nodes), "
             "F2 (paths ending in aliases of @type/@id resolve to keys under which nothing is stored), F1 (array positions)."),
    "C18": dict(
        text="Lean: an executable JSON Schema validator for the structural vocabulary under draft-07 and 2020-12 (Gsp.Schema, open-recursive keyword groups, fuelled for $ref) with theorems pinning the reference semantics: annotation_ignored "
             "(an unknown member such as $metadata never changes a node's verdict), checkKeywords_congr, not/allOf/anyOf/oneOf specifications, oneOf_two, ref_unfold, ref_siblings_ignored_draft07, draft07_items_eq_2020_prefixItems, "
             "type_integer_accepts_integral, validate_root_congr, nonobject_rejected, bool_schema. Tie: the Go library's verdict (valid / invalid / error) vs the Lean validator on generated schema x instance pairs; instances "
             "conforming by construction must be valid; $metadata must not matter; error cases.",
        note="PARTIAL by nature: the Go validator library is compared with the reference semantics, not verified. Defect D11 (JSON null accepted as data) found here and fixed in /repo (e699080)."),
    "C14": dict(
        text="Lean theorems (Gsp.Props.C14 over Gsp.Json.view / unview, the member-level model of W3CCredential's JSON codec): view_lossless - for the supported shape every known member survives decode+encode as the same JSON value (contexts, "
             "types, subject, status, issuer, schema, proofs, id, refresh service, display method) and each date as a string denoting the same instant; root_indep_of_proofs - the document that is merklized (encoding minus proof) does not depend on "
             "the proof member at all; unview_only_known; proof_kind_dispatch (type string -> concrete kind, unknown -> passthrough). Tie: real json.Unmarshal / W3CCredential.Merklize / json.Marshal vs MerklizeJSONLD of the original JSON "
             "(roots equal), the model's view of the same JSON (nothing lost), round-trip equality, proof kinds and verification outcomes; DID documents stable under the round trip.",
        note="Time parsing/formatting enter as parameters (round-trip assumption stated as hypothesis hrt). The JSON-LD meaning of the members (facts) is covered by C01-C03; here the statement is member-level equality, which implies equal facts."),
    "C12": dict(
        text="Lean: every model function is total (no `partial`, termination checked); named unreachable bad outcomes: the parent walk is bounded and a reference cycle is an error for every fuel (path_bounded, entries_no_diverge), a negative or "
             "oversized entry count is an error before allocation (unmarshal_count_guard), a hasher yielding no element makes value / key hashing an error (enc_total_string, keyHash_total), every combination of absent optional members of "
             "proof, issuer data, state and resolver answer is an error for both verifiers and the status validation (verify_no_panic_bjj, verify_no_panic_smt, status_missing_state). Tie/observation: structured enumeration of malformed "
             "artefacts and mutation fuzzing against the real entry points under recover + watchdogs; datasets vs the model.",
        note="PARTIAL: the byte-level behaviour of gob/json/json-gold decoders is observed, not proved. Found and fixed here: D2 (entry count), D10 (empty string => nil hash), D3 (nil dereferences), Authentication.UnmarshalJSON on empty input; "
             "D1 (cycle hang) via C01. Known finding F6: a null sibling in a Merkle proof's JSON panics inside go-merkletree-sql's decoder."),
    "C19": dict(
        text="Lean theorems (Gsp.Props.C19 over the loader state machine Gsp.Loader): CacheInv (every cached document was received earlier in a storable response with exactly that response's expiry; nothing received in the future; embedded URLs never "
             "enter the mutable cache) holds initially, is preserved by every operation and hence along any history (inv_init, inv_step, inv_run); load_fresh - a returned document is the origin's current one, or a storable one whose lifetime has not "
             "expired, or the embedded one; only_storable_received, failure_not_returned, embedded_no_request, embedded_never_overwritten, cache_disabled_always_requests, route_spec (http(s) -> HTTP, ipfs -> client else gateway else error, "
             "other schemes rejected). Tie: real loaders.NewDocumentLoader with a scripted RoundTripper / IPFS client over generated histories vs the model (version and request count per load) and the allowed-set predicate.",
        note="cachecontrol's classification is an oracle column; real time is replaced by a virtual clock in a custom CacheEngine (plus real-time histories in the thorough tier)."),
    "C20": dict(
        text="Lean theorem (Gsp.Props.C20): interleaving_deterministic - for any number of threads, any schedule of their atomic steps (cache read / request / cache write) and any passage of time, against a constant origin every load returns "
             "exactly what a sequential execution returns (invariant: cached and in-flight documents are the origin's; embedded URLs are never fetched); merklize/proof/hash are pure functions in the model. "
             "Observation: the harness is built with -race and runs randomized mixes on 2-64 goroutines with cold, warm, expiring, non-storable and embedded entries; every result is compared with the sequential oracle; any race report is a violation.",
        note="PARTIAL: data-race freedom is observed by the race detector on the explored schedules, not proved (Go memory model)."),
    "C06": dict(
        text="Lean theorems (Gsp.Props.C06 over Gsp.Claim): the binding check passes only if re-deriving the claim from the credential with the options carried by the proof's claim reproduces it exactly (bind_sound); the proof's claim is then "
             "the closed form of this credential - its type hash, expiration, subject identifier and, for merklized schemas, its Merkle root, for serialized ones its designated field encodings (bind_pins_credential, via C05 decode_encode); "
             "two credentials accepted for one claim have the same Merkle root (same_claim_same_root; with C03 root binding the same merklized statements); dispatcher: unknown type => proof-not-found, unsupported => not-supported, binding before "
             "any proof-specific check (proof_selected_by_type, unsupported_type, bind_checked_first). Tie: real VerifyProof on properly issued credentials and on every single-site modification, vs the model's bindCheck and the direct predicate "
             "'accepted <=> nothing bound was changed' (binding failures must precede any resolver call).",
        note="PARTIAL: completeness (the issuance claim always passes its own binding check) is covered by the correspondence, not yet by a Lean theorem. Not bound (observed, stated): the credential's own id; for serialized schemas everything but "
             "type, subject id, expiration seconds and the slot fields."),
    "C07": dict(
        text="Lean theorems (Gsp.Props.C07 over Gsp.Verify): bjj_sound - acceptance implies valid signature bit, issuer state = H(roots), existence proof carrying the auth claim's (hi,hv) to the claims root, published-or-genesis, status nonce = "
             "auth claim nonce, status validation ok; bjj_auth_in_tree_and_not_revoked - under HashCR the auth claim is a leaf of every tree with that claims root and its nonce is absent from the revocation tree; bjj_complete - an honest bundle "
             "verifies; bjj_revoked_only_from_status. Tie: the real VerifyProof with synthetic issuers on 36 kinds of bundle vs the model (fed numbers + oracle bits) and the direct predicate 'accepted <=> no fault'.",
        note="Defects D3 (nil dereferences) and D5 (inclusion proof / claims root / state never related) were fixed in /repo (b9d67f9, 4a75be7). Signature, genesis and DID parsing are oracle bits."),
    "C08": dict(
        text="Lean theorems (Gsp.Props.C08): smtp_sound - acceptance implies an existence proof that recomputes the claims root given in the proof, state = H(roots), published-or-genesis; smtp_claim_in_tree - under HashCR the claim is a leaf of "
             "every tree with that root (verify_sound: soundness of Merkle proofs, proved by induction over the siblings); smtp_complete - a claim inserted in the tree verifies with the generated proof; smtp_missing_members - absent optional "
             "members give an error. Tie: real VerifyProof on 24 kinds of bundle with claims trees of varying size/depth vs the model and 'accepted <=> no fault'.",
        note="Defects D4 (existence flag ignored) and D5 (state never related to the roots) fixed in /repo (91242bf, 4a75be7)."),
    "C09": dict(
        text="Lean theorems (Gsp.Props.C09): status_sound / status_revoked_iff - ok only with a consistent tree state and a verified non-existence proof; 'revoked' exactly for a verified existence proof; missing_roots_zero; honest_iff - against "
             "a real revocation tree the honest answer reports non-revoked iff the nonce is absent and revoked iff present (no hash assumption); any_answer_truthful - under HashCR every accepted answer tells the truth; httpStatus_ok_iff. "
             "Tie: real ValidateCredentialStatus with a scripted registry and the built-in IssuerResolver through a scripted http.DefaultTransport vs the model and the direct predicates.",
        note="The HTTP resolver's 16 KiB limit: bodies of exactly 16384 bytes are rejected (len < 16384), as the statement's 'smaller than its size limit' says."),
    "C17": dict(
        text="Lean theorems (Gsp.Props.C17 over Gsp.Claim's ParseSerializationAttr / GetFieldSlotIndex / parseSlots models): a reported index is one of 2,3,6,7 and claim building puts exactly that field's value "
             "encoding in that raw slot (slot_agree); for attributes assigning distinct fields to distinct slots the index is reported iff the field is designated there (slot_agree_iff); malformed attributes fail both operations, "
             "fields not named, the empty field name and types without attribute are errors (malformed_both_error, unnamed_field_error, empty_field_error, no_attribute_error, parseSer_prefix); facade delegation and "
             "missing-component errors. Tie: real GetFieldSlotIndex vs the model for every (attribute, field) of the enumeration, and the direct predicate 'index i <=> raw slot i of the really built claim holds the field's encoding'.",
        note="Defect D12 (empty field name matched an unassigned slot) found here and fixed in /repo (c27936c). Known finding F3: a field assigned to two slots is reported at the first only."),
    "C05": dict(
        text="Lean theorems (Gsp.Props.C05 over Gsp.Claim, a byte-faithful model of go-iden3-core's claim setters and of ToCoreClaim): whenever toCoreClaim succeeds the claim equals the closed form the statement describes "
             "(toCoreClaim_spec: schema hash of the resolved type; nonce, version, updatable as given; expiration flag iff present with Unix seconds mod 2^64; identifier in the requested/default position iff the subject has an id; "
             "root in the requested/default position for merklized schemas, the designated slots and no root for serialized ones) and an independent div/mod decoder reads every input back (decode_encode); a root position with a "
             "serialization attribute and unknown positions are errors (root_pos_error, unknown_root_pos_error); over any history of calls sharing objects the store is unchanged and each result is the stand-alone result (history_pure). "
             "Tie: real ToCoreClaim vs the model slot by slot, an independent Go decoder checking the statement, deep comparison of options and credential before/after, histories vs fresh objects.",
        note="Defect D6 (options rewritten in place) was found by this check and fixed in /repo (029bdcf). Keccak and DID->ID are oracle columns."),
    "C13": dict(
        text="Lean theorems over a token-level codec model (Gsp.Codec): an entry decodes to itself whatever follows (entry_roundtrip, all value kinds incl. negative big integers); the merklizer image decodes to the same "
             "source/compacted/root/safe-mode/entries and the tree is rebuilt from exactly the stored entries (mz_roundtrip, entries_roundtrip); a tree rebuilt in another insertion order has the same content "
             "(restored_same_content); a caller-provided tree is accepted only if its root is the recorded one and is then used as is (provided_tree_only_if_root); a negative or oversized entry count is an error (count_guard). "
             "Tie: real MarshalBinary/MerklizerFromBytes/UnmarshalBinary; the restored merklizer's observation must equal the model's merklization of the same dataset and the original's observation path by path.",
        note="gob's byte layer is not modelled. Root equality of the rebuilt tree rests on insertion-order independence of the tree shape (stated, covered by the correspondence; content equality is proved)."),
    "C15": dict(
        text="Lean theorems (Gsp.Props.C15 over Gsp.Safe): the default mode is safe and the last explicit option wins (default_safe, options_last_wins); in safe mode a document with an undefined property is an error, so success "
             "implies nothing was dropped (safe_rejects_undefined, safe_success_covers); unsafe mode equals the safe merklization of the stripped document (unsafe_equals_stripped). Tie: real MerklizeJSONLD in the three "
             "configurations on documents with injected undefined properties vs the model fed with the stripped dataset; direct predicates: safe => error, unsafe => root of the stripped document.",
        note="PARTIAL by nature: the removal of undefined properties happens inside json-gold (third party); the model specifies which properties are undefined (term resolution under scoped contexts) and the repository's plumbing, "
             "and the library's behaviour is compared with that on every case."),
    "C10": dict(
        text="Lean theorems (Gsp.Props.C10): valueToHash h dt raw equals the stored leaf value convert dt lit >>= enc h for every natural rendering of one value: identical strings (standalone_eq_leaf_string), "
             "any two spellings denoting the same integer incl. float64 canonical spellings (standalone_eq_leaf_int), JSON booleans and 0/1 (standalone_eq_leaf_bool, standalone_bool_01), doubles under idempotent "
             "canonicalisation (standalone_eq_leaf_double); the decoded value's kind is the one implied by the datatype (value_kind). Tie: for every literal of generated documents the real "
             "HashValueWithHasher(JSONLDType(p), RawValue(p)) is compared with the model and, as direct predicate, with the stored leaf value.",
        note="Known finding F1: sibling positions (RawValue reads document array order and counts all members; stored indices follow canonical quad order, literals and nodes numbered separately) - reported as KNOWN-FINDING when the "
             "stored value is found under the same path at other array positions; any other failure is a violation."),
    "C16": dict(
        text="Lean theorems (Gsp.Props.C16 over Gsp.Cfg): with a configured hasher the entries, their key and value hashes, option-created paths/entries and integer ranges do not depend on the default hasher, for all "
             "defaults at once (entries_noninterference, stored_hashes_use_configured, options_objects_use_configured, range_follows_configured_prime); the value handed out with a proof hashes to the stored leaf and the proof verifies "
             "(handed_out_value_is_leaf, from C02). Tie: the poison-default experiment on the real code under 5 hashers, compared with the model (which has no default at all) and with the statement's own hashing.",
        note="Gsp.Cfg models where cfg/default enter (Options.getHasher, RDFEntry.getHasher, EntriesFromRDFWithHasher); defect D7 was found by this correspondence and fixed in /repo (a899df7)."),
    "C03": dict(
        text="Lean theorems: the content of the tree (key -> value map) is independent of insertion order (content_perm_indep, from lookup_addAll); under the idealised-hash hypothesis equal roots mean equal trees "
             "(root_binds_tree) so any single-field value change, addition or removal changes the root (value_change_changes_root, presence_change_changes_root). The model's entries/root are functions of the "
             "dataset (determinism by construction). Tie: metamorphic run on the real code (k renderings x r repetitions per abstract document, default vs caller-provided empty tree) with all roots equal to each other and to "
             "the root computed by the Lean model (own Poseidon + SMT); every single-field mutation must change the real root.",
        note="PARTIAL: insertion-order independence of the tree *shape* (addAll_perm) and blank-node-label invariance are not yet proved in Lean; they are covered by the correspondence. json-gold's URDNA2015 is not modelled. "
             "Known finding F5 (array members respelled lexically change sibling order) is reported, not suppressed silently."),
    "C02": dict(
        text="Lean theorems (Gsp.Props.C02 over Gsp.Mz / Gsp.Smt): for every successfully merklized dataset and every entry, Proof returns an existence proof with the entry's value and the proof "
             "recomputes Root() from (key hash, value hash) (member_proof); for every path whose key hash is no entry's, Proof returns a non-existence proof that verifies for any value and a nil Value "
             "(nonmember_proof); Entry/JSONLDType succeed iff the proof is an existence proof (entry_iff_existence); key hashes of a merklized document are pairwise distinct and the tree maps exactly them "
             "(merklize_tree_spec, from lookup_add / lookup_addAll / add_existing_fails); proof generation is total on trees built by insertion (genProof_total via the Fits invariant). No hash assumption is needed. "
             "Tie: real Merklizer.Proof/Entry/JSONLDType and go-merkletree-sql GenerateProof/VerifyProof vs the model on the same documents/paths and on raw SMT op streams (all siblings, aux node, existence, roots compared); "
             "direct predicates: VerifyProof against Root() for every proof, existence == membership, Entry/JSONLDType succeed iff existence.",
        note="The sparse Merkle tree library is modelled and compared, not verified. Document -> dataset (json-gold) not modelled."),
    "C01": dict(
        text="Lean theorems about the model of EntriesFromRDFWithHasher (Gsp.Rdf): a successful run yields exactly one entry per literal/IRI quad, in order, with the value decoded "
             "according to its datatype (entries_complete, goEntries_values: nothing dropped, duplicated or invented); reference cycles make the bounded parent walk return an error for every "
             "fuel (cycle_rejected, walk_ok_chain_ends); a subject referenced twice in its graph makes findParent and hence the relationship fail (multi_parent_findParent, relGraph_error). "
             "Tie: the real EntriesFromRDFWithHasher / MerklizeJSONLD and the model are run on the same datasets (entries compared in order, roots compared under 5 hashers with Lean's own Poseidon "
             "and sparse Merkle tree); direct predicates on the implementation: entries == facts of the abstract document (indices erased), sibling indices exactly 0..n-1, no index on single-valued "
             "properties, leaf count == entry count == merklizer map size, multi-referenced subjects rejected, no hang/panic.",
        note="Document -> dataset (json-gold) is not modelled; it is covered by the facts predicate against the abstract document. Index exactness and path-chain theorems are stated in DESIGN.md and "
             "currently covered by the correspondence + direct predicate (see DESIGN.md section 6, C01 status)."),
    "C04": dict(
        text="Lean theorems about the XSD value model (Gsp.Xsd): the code's integer ranges equal the statement's table for every odd prime (range_is_table), "
             "acceptance iff in range (int_accept_iff), encoding v / p+v never reduced and below p (int_enc), injectivity on every range (int_inj), "
             "non-integral and non-numeric forms rejected, spelling independence, exact boolean table and encoding, dateTime = Unix ns mod p, offset shift, "
             "bare date = midnight UTC, injectivity of instants for p > 4e20. The model is tied to the code by running HashValueWithHasher and the model on the same "
             "cases (whole field enumerated for p in {3,5,7,251}; boundaries for 65537, 2^61-1, BN254) plus a direct predicate computed with math/big from the statement's table.",
        note="Model fidelity is checked by differential execution, not proved. ParseFloat/GetCanonicalDouble are an oracle column. big.Rat spellings outside the decimal grammar "
             "and time.Parse's lenient fallback are outside the model."),
}

# ---- later revisions (kept as overrides so that the history of each text stays readable above) ----
MANIFEST_TEXT["C03"] = dict(
    text="Lean theorems (Gsp.Props.C03): the tree itself, and so its root, is independent of insertion order (insertion_order_irrelevant, from Gsp.Lemmas.SmtPerm.addAll_perm: every successful "
         "insertion sequence yields the canonical tree `build` of its leaves); the content (key -> value map) likewise (content_perm_indep); a caller-provided empty tree is the default tree "
         "(empty_tree_param); under the idealised-hash hypothesis equal roots mean equal trees (root_binds_tree), so any single-field value change, addition or removal changes the root "
         "(value_change_changes_root, presence_change_changes_root). The model's entries/root are functions of the dataset (determinism by construction). Tie: metamorphic run on the real code "
         "(k renderings x r repetitions per abstract document, default vs caller-provided empty tree) with all roots equal to each other and to the root computed by the Lean model (own Poseidon + SMT); "
         "number respellings with another lexical form judged one by one; every single-field mutation must change the real root.",
    note="PARTIAL: the document-level invariances (key order, array permutation, whitespace, number spelling, blank-node labels, inline contexts) pass through json-gold's expansion and URDNA2015, "
         "which are not modelled: they are covered by the metamorphic run; the Lean theorems start at the dataset. Known finding F5: a number written with another lexical form of the same value "
         "('5.0', '05' for '5') can move elements of arrays (positions follow the N-Quads order of lexical forms and canonical blank-node labels); reported as KNOWN-FINDING only when the entries "
         "with positions erased are the same multiset - any other root change under respelling is a violation.")
PROPS["C03"]["rule"] = (
    "cases = abstract documents; each is rendered k times with independent presentation choices (object keys shuffled, arrays permuted, whitespace, JSON number spellings with the same lexical form, "
    "blank-node labels added/renamed, context inline / by URL / in an array, id/type aliases vs keywords) and each rendering merklized r times alternating the default tree and a caller-provided "
    "empty tree; all roots must equal the base root, which must equal the model's root; kx further renderings write numbers with another lexical form of the same value ('5.0', '05', '+5', '5e0', "
    "'50e-1') and are judged one by one (root equal, or known finding F5 when only array positions moved); then up to m single-field value changes must each change the root. non-trivial = every "
    "document (>= 1 re-presentation and >= 1 mutation); distinct = distinct (op,input) hashes")
MANIFEST_TEXT["C04"]["text"] = MANIFEST_TEXT["C04"]["text"].replace(
    "non-integral and non-numeric forms rejected,",
    "non-integral, non-numeric and non-decimal forms (hex, binary, octal, fractions a/b, digit separators: defect D16, repaired) rejected,")
MANIFEST_TEXT["C04"]["note"] = ("Model fidelity is checked by differential execution, not proved. ParseFloat/GetCanonicalDouble and the int64 conversion of a float64 are oracle columns. Known findings F4 "
                                "(a double whose 16-digit canonical form overflows) and F7 (a float64 beyond int64 given for an integer datatype goes through the 16-digit canonical double).")
PROPS["C04"]["trusted"] = ["ld.GetCanonicalDouble / strconv.ParseFloat / int64(float64) (oracle columns `canon`, `whole`)",
                           "the lenient fallback of time.Parse is outside the model and not generated; big.Rat spellings outside the decimal grammar are generated and must be rejected (D16)"]
MANIFEST_TEXT["C10"]["text"] = MANIFEST_TEXT["C10"]["text"].replace(
    "any two spellings denoting the same integer incl. float64 canonical spellings (standalone_eq_leaf_int),",
    "JSON numbers under every datatype with no side condition (standalone_eq_leaf_number: the standalone API and the RDF conversion spell a float64 with the same function numberLex - whole numbers "
    "with all their digits unless the datatype is xsd:double; the repaired defect D17), any spelling denoting the same integer (standalone_eq_leaf_int),")
PROPS["C10"]["rule"] = PROPS["C10"]["rule"].replace(
    "JSON numbers, numeric strings, booleans, strings;",
    "JSON numbers incl. whole numbers between 2^53 and 2^69 and numbers/booleans under string and custom datatypes, numeric strings, booleans, strings;")
MANIFEST_TEXT["C13"]["text"] = MANIFEST_TEXT["C13"]["text"].replace(
    "a tree rebuilt in another insertion order has the same content (restored_same_content);",
    "a tree rebuilt in another insertion order is the same tree, hence has the same root (restored_same_tree, from addAll_perm) and the same content (restored_same_content);")
MANIFEST_TEXT["C13"]["note"] = "gob's byte layer is not modelled (token-level model)."
MANIFEST_TEXT["C06"]["text"] = MANIFEST_TEXT["C06"]["text"] + (
    " Completeness is proved too (issue_then_bind): a claim produced by ToCoreClaim from a credential with any options (nonce/version within uint64/uint32) or with none passes the binding check of "
    "that credential - the options rebuilt from the claim's own flags re-derive exactly the same claim. The harness additionally verifies each modification made in place on an already verified "
    "credential object and on a by-value copy of it.")
MANIFEST_TEXT["C06"]["note"] = "The JSON-LD merklization that produces the root and the field encodings is an input of the claim model (tied by C01-C05)."
MANIFEST_TEXT["C01"]["text"] = MANIFEST_TEXT["C01"]["text"].replace(
    "a subject referenced twice in its graph",
    "sibling indices have a closed form (index_exact: a key ends with the quad's predicate when its (subject, predicate, graph) key occurs once, else with the number of earlier literal/IRI quads of "
    "that key; sibling_indices_consecutive: the indices of one key are exactly 0..n-1 in quad order; key_shape: everything before the last predicate comes from the parent chain); a subject "
    "referenced twice in its graph")
MANIFEST_TEXT["C01"]["note"] = ("Document -> dataset (json-gold) is not modelled; it is covered by the facts predicate against the abstract document. The parent-chain part of a key (entries_pred_chain) "
                                "is covered by the correspondence + direct predicate, not by a theorem.")

# ---- revision of 2026-09-26 (second session): new theorems and model parts ----
MANIFEST_TEXT["C01"]["text"] = MANIFEST_TEXT["C01"]["text"].replace(
    "a subject referenced twice in its graph",
    "the string parts of a key are the expanded property IRIs along the chain of unique referrers (entries_pred_chain: the i-th entry belongs to the i-th literal/IRI quad and its key, positions "
    "erased, is the predicates of the reference chain from a top-level node down to the quad plus the quad's own predicate; parent_map_spec: the parent map is findParent quad by quad; "
    "referrer_unique: findParent returns the unique referrer or none); node siblings are numbered 0..m-1 by first appearance (node_sibling_positions); a subject referenced twice in its graph", 1)
MANIFEST_TEXT["C01"]["text"] = MANIFEST_TEXT["C01"]["text"].replace(
    "(multi_parent_findParent, relGraph_error)", "(multi_parent_findParent, relGraph_error), lifted to the whole run: entries is an error for every order of the graph map (multi_parent_rejected, self_reference_rejected_entries)")
MANIFEST_TEXT["C01"]["note"] = ("Document -> dataset (json-gold's expansion and URDNA2015 normalisation) is not modelled; it is covered by the facts predicate against the abstract document. "
                                "Graph names are assumed distinct in entries_pred_chain (they are the keys of a Go map).")
MANIFEST_TEXT["C03"]["text"] = MANIFEST_TEXT["C03"]["text"].replace(
    "The model's entries/root are functions of the dataset (determinism by construction).",
    "The order in which Go's map hands out the graphs of the dataset changes neither the entries nor their order nor the error class nor the merklizer "
    "(entries_map_order_irrelevant, merklize_map_order_irrelevant: every function of the model commutes with permutations of a dataset with distinct graph names).")
EXTRA_TEXT = {
    "C04": " The day count behind the Unix time is the Gregorian calendar's for every year: epoch_day, next_day_same_month, next_day_month_rollover, next_day_year_rollover (omega).",
    "C05": " claim_inj: two successful builds yielding the same claim had the same schema hash, subject position and identifier, expiration, flags, version, nonce and (merklized) root.",
    "C11": " On documents whose nodes carry no types (all scoping by property) the document-side resolver, the context-side resolver and the specification of expansion give the same path whenever "
           "two of them give one, at any depth and with positions (doc_eq_stored_partial, ctx_eq_doc_partial); the unrestricted statement is false of the code (d8_counterexample). numeric_on_single_value / stored_key_single_member_has_no_member_one: where the document has no array a position other than 0 is an error "
           "(defect D21, fixed in /repo 6390bbf).",
    "C19": " The loader model includes rel=\"alternate\" links (Origin.alt, recursion bounded by maxHops = the repaired code's bound): the invariant, load_fresh (returned document is Allowed: current - "
           "directly or through the page's link -, fresh storable, embedded), only_storable_received, failure_not_returned hold for every hop count; alternate_loop_is_error (defect D19, fixed) and "
           "alternate_page_reuses_target_document (known finding F9) are proved witnesses. The target of an alternate link goes through the scheme dispatch again (Loader.Route, a parameter of "
           "loadHTTP; all theorems hold for every dispatch): alternate_rejected_scheme, alternate_to_ipfs_node, alternate_routing_witness.",
    "C15": " Which properties are undefined is no longer told to the model: it is computed from the abstract document and its contexts (Ctx.undefinedProps: term lookup under the node's base context "
           "plus its type-scoped contexts, property-scoped contexts for values, the count taken over the whole tree), and safe_success_stores_every_path proves that after a safe-mode success every dotted path "
           "addressing something in the document - any depth, array positions included - has a stored key under the specification of expansion (Ctx.storedKey). Also driven: MerklizeJSONLD through the "
           "library's own HTTP loader and cache over histories with re-published contexts, expiry and transient origin failures (a success is the merklization under one published revision).",
    "C06": " claim_hex_inj: the binding check compares the two claims by their hexadecimal spellings, and two claims with one spelling are one claim (Gsp.Hex). Lists of proofs (Verify.selectProof / verifyList): list_accepted_one_proof_bound_and_valid - a credential with any list of proofs is accepted only if one and the same proof of the requested type "
           "is bound to it and verifies over the claim it carries; list_only_first_of_type. Tie: op verify.list - lists mixing a bound-but-unsigned proof, a genuine proof of another credential and a proof of "
           "another type, in several orders, against the real VerifyProof.",
    "C12": " applyTypes_fails_at_any_position / doc_path_context_failure_is_error: a type-scoped context that cannot be applied makes every path resolution into that node an error, at whatever position of "
           "the type list the type stands (the harness probes all five resolvers with contexts of 15 kinds at every position).",
    "C02": " merklize_into_caller_tree: with WithMerkleTree the entries are added to the caller's tree (every entry a leaf, earlier leaves kept, an existing key an error); driven by C03 with empty and "
           "pre-populated caller trees under every option order.",
    "C18": " The model and the generator also cover if/then/else, contains (with minContains/maxContains under 2020-12; unknown words under draft-07), propertyNames, patternProperties (a member matched by a pattern is not additional) and "
           "dependentRequired (2020-12 only): if_then_else_spec, then_else_without_if_ignored, contains_spec_draft07, propertyNames_spec, dependentRequired_spec.",
    "C20": " interleaving_results_total (every load ends with a document or an error, never with neither, under every schedule) and interleaving_failing_url (a URL the origin does not serve is an error "
           "for every thread); the harness's bursts include failing URLs of six kinds.",
    "C09": " Which resolver answers is in the model (Gsp.Resolve, M6b): the verifier's own registry and the process-wide default one as finite maps refined to their history - resolver_is_last_registered (the resolver asked is the one "
           "last registered under exactly that type in the registry in force), unregistered_type_is_error, other_types_do_not_answer (look-alike types are other keys), own_registry_isolated / default_registry_when_no_option. "
           "Tie: op registry.run - histories of Register / Delete / look-up over both registries and families of look-alike type names, the resolver really asked by Get and by ValidateCredentialStatus vs the model's.",
    "C14": " The spelling of the claim a proof carries (Gsp.Hex, M4b - hex.DecodeString / core.Claim.FromHex / Hex): claim_hex_roundtrip, claim_hex_case_irrelevant, claim_hex_spellings (the accepted spellings of a claim differ only in "
           "the case of their digits), claim_hex_decoded_wf. Tie: op hex.claim - the three typed proof decoders and GetCoreClaim vs the model on valid, recased, mis-sized, non-digit and out-of-field spellings.",
    "C08": " The DID resolver's document is in the model (Gsp.Resolve.stateInfo / resolvedOf): state_entry_is_first_of_its_type, other_methods_irrelevant, trailing_methods_irrelevant, later_state_entries_irrelevant, "
           "no_state_entry_rejected, smtp_verdict_ignores_other_methods; the harness hands the verifier whole DID documents (state entry among 0-4 verification methods of other types, struct or JSON) and the model the same list. smt_resolver_failure_rejected: a resolver error (whatever document accompanies it) or an answer without state information is a rejection, also for the genesis state; the harness's resolver errors "
           "come with an empty document, a 'published' one or one without the flag.",
    "C07": " bjj_verdict_ignores_other_methods, bjj_no_state_entry_rejected, bjj_status_type_not_in_own_registry_rejected (a status type the verifier's own registry does not hold is a rejection - the default registry is not consulted; Gsp.Resolve). bjj_resolver_failure_rejected (as for C08), bjj_congr (no hidden input: the verdict is a function of the bundle's members). The same verification also runs through verifiable.HTTPDIDResolver against a scripted gateway (transient 5xx): same verdict, same questions asked. Known finding F8: status nonces are read back through float64 inside VerifyProof; the model receives the nonce as the verifier reads it (oracle column).",
}
_FACTS = (" Regenerated tie: on every run a small go/ast translator (harness `facts`) reads {what} off the source and bin/check generates a Lean file whose theorems "
          "(SourceFacts.{thms}) prove that the model's definitions are those very values; a change of the source breaks the obligation by name.")
for _pid, _what, _thms in [
    ("C05", "the serialization attribute's prefix, part limit and key table (ParseSerializationAttr)", "ser_prefix_is_models, ser_parts_limit_is_models, ser_keys_are_models"),
    ("C17", "ParseSerializationAttr's prefix, part limit and key table and GetFieldSlotIndex's switch", "ser_*_is_models, slot_switch_is_models; Props.C17.slotIndexOf_eq_table and setField_getField relate the tables to the model's functions"),
    ("C04", "convertStringToXSDValue's switch: the case lists of datatypes and the boolean spellings", "xsd_cases_are_models, xsd_bool_false_is_models, xsd_bool_true_is_models; Props.C04.convert_bool_by_table, isIntType_by_table, convert_other_is_string relate the tables to the model's convert"),
    ("C10", "convertStringToXSDValue's case lists and boolean spellings", "xsd_*_is_models"),
    ("C16", "every function returning a MerklizeOption with the one Merklizer field its body assigns", "merklize_options_are_models; Props.C16.option_order_irrelevant, later_options_keep_hasher, applyOpt_comm: options that set different fields commute, so the order they are listed in is no input (the harness varies it)"),
    ("C19", "the bound on alternate links", "alternate_hops_is_models"),
    ("C12", "the bound on alternate links and the depth of every tree the merklizer creates", "alternate_hops_is_models, tree_depth_is_models"),
    ("C09", "the size limit of a status response, the comparisons of the HTTP status code, and how the registry's methods key their map (by their own parameter, as given; no mention of the default registry)", "status_limit_is_models, status_code_conds_are_models, registry_key_use_is_models"),
    ("C07", "the type literal and first-match rule of getIden3StateInfo2023FromDIDDocument and how the registry's methods key their map", "state_info_type_is_models, registry_key_use_is_models, proof_switch_is_models"),
    ("C08", "the type literal and first-match rule of getIden3StateInfo2023FromDIDDocument, and the proof types VerifyProof's switch verifies (constants, their strings, the default arm)", "state_info_type_is_models, proof_switch_is_models"),
    ("C06", "the proof types VerifyProof's switch verifies (constants in order, the strings they stand for, what the default arm returns)", "proof_switch_is_models; Props.C06.kindOfName_spec relates the table to the dispatcher model"),
    ("C02", "the depth of every tree the merklizer creates", "tree_depth_is_models"),
    ("C13", "the depth of every tree the merklizer creates and the safe-mode value of every Merklizer literal", "tree_depth_is_models, safe_default_is_models"),
    ("C15", "the safe-mode value every Merklizer literal starts with", "safe_default_is_models"),
]:
    EXTRA_TEXT[_pid] = EXTRA_TEXT.get(_pid, "") + _FACTS.format(what=_what, thms=_thms)
    MANIFEST_TEXT[_pid].setdefault("technique", "Lean 4 theorems about a hand-written model + differential correspondence check against the Go code + model constants/tables re-proved against facts regenerated from the Go source (go/ast) on every run")
for _pid, _t in EXTRA_TEXT.items():
    MANIFEST_TEXT[_pid]["text"] = MANIFEST_TEXT[_pid]["text"] + _t
